#!/usr/bin/env python3
"""Sensitivity experiments with hand-written property-breaking changes.

Each mutant is a textual edit of a scratch clone of /repo (never /repo
itself). For every mutant: the crate's own test suite must still pass
(otherwise the mutant is dropped as "killed by the suite"), then every
claimed check's quick command is run against the scratch clone
(VERIF_REPO=...). Results go to /verif/sens/own_results.json.

usage: own_mutants.py [name ...]
"""
import json
import os
import shutil
import subprocess
import sys

SCRATCH = '/var/tmp/sens-own'
REPO = SCRATCH + '/repo'
PROPS = ['C02', 'C04', 'C05', 'C06', 'C07', 'C08', 'C09', 'C10', 'C12', 'C17', 'C18', 'C19']

# (name, expected properties, file, old, new, which occurrence (0-based) or None for unique)
MUTANTS = [
    ('eucjp_pending_lost_on_outputfull', ['C02'], 'src/macros.rs',
     '''                        Space::Full(dst_written) => {
                            return (DecoderResult::OutputFull,
                                    source_handle.consumed(),
                                    dst_written);
                        }
                        Space::Available($handle) => {
                            let ($byte, $unread_handle_trail) = source_handle.read();
                            match $slf.pending {
                                EucJpPending::Jis0208Lead($jis0208_lead_minus_offset) => {''',
     '''                        Space::Full(dst_written) => {
                            $slf.pending = EucJpPending::None;
                            return (DecoderResult::OutputFull,
                                    source_handle.consumed(),
                                    dst_written);
                        }
                        Space::Available($handle) => {
                            let ($byte, $unread_handle_trail) = source_handle.read();
                            match $slf.pending {
                                EucJpPending::Jis0208Lead($jis0208_lead_minus_offset) => {''', None),
    ('bom_replay_read_added_not_overwritten', ['C10', 'C06'], 'src/macros.rs',
     '''                    first_read = read; // Overwrite, don't add!''',
     '''                    first_read += read;''', None),
    ('gb18030_pending_ascii_dropped_when_full', ['C02'], 'src/macros.rs',
     '''                    Space::Full(_) => {
                        return (DecoderResult::OutputFull, 0, 0);
                    }
                    Space::Available(pending_ascii_handle) => {''',
     '''                    Space::Full(_) => {
                        $slf.pending_ascii = None;
                        return (DecoderResult::OutputFull, 0, 0);
                    }
                    Space::Available(pending_ascii_handle) => {''', None),
    ('utf8_check_space_bmp_off_by_one', ['C06', 'C05'], 'src/handles.rs',
     '''        if self.pos + 2 < self.slice.len() {
            Space::Available(Utf8BmpHandle::new(self))''',
     '''        if self.pos + 1 < self.slice.len() {
            Space::Available(Utf8BmpHandle::new(self))''', None),
    ('ncr_extra_nine', ['C06', 'C04'], 'src/lib.rs',
     '''const NCR_EXTRA: usize = 10; // &#1114111;''',
     '''const NCR_EXTRA: usize = 9; // &#1114111;''', None),
    ('had_errors_overwritten_in_utf16_loop', ['C09'], 'src/lib.rs',
     '''                DecoderResult::InputEmpty => {
                    return (
                        CoderResult::InputEmpty,
                        total_read,
                        total_written,
                        had_errors,
                    );
                }''',
     '''                DecoderResult::InputEmpty => {
                    return (
                        CoderResult::InputEmpty,
                        total_read,
                        total_written,
                        had_errors && total_read > 0,
                    );
                }''', 1),
    ('eucjp_plus_one_if_lead_dropped', ['C07'], 'src/euc_jp.rs',
     '''        byte_length.checked_add(if self.pending.is_none() { 0 } else { 1 })''',
     '''        byte_length.checked_add(0)''', None),
    ('decode_to_str_skips_continuation_zeroing', ['C05'], 'src/lib.rs',
     '''        while trail < len && ((bytes[trail] & 0xC0) == 0x80) {
            bytes[trail] = 0;
            trail += 1;
        }
        (result, read, written, replaced)''',
     '''        if trail + 1 < len && ((bytes[trail] & 0xC0) == 0x80) {
            bytes[trail] = 0;
        }
        (result, read, written, replaced)''', None),
    ('latin1_ignores_neutral_state_big5', ['C19'], 'src/variant.rs',
     '''            VariantDecoder::Big5(ref v) => {
                if !v.in_neutral_state() {
                    return None;
                }
            }''',
     '''            VariantDecoder::Big5(_) => {}''', None),
    ('iso2022jp_unmappable_astral_without_ascii_transition', ['C12'], 'src/iso_2022_jp.rs',
     '''                    if c > '\\u{FFFF}' {
                        // Transition to ASCII here in order
                        // not to make it the responsibility
                        // of the caller.
                        self.state = Iso2022JpEncoderState::Ascii;
                        return (
                            EncoderResult::Unmappable(c),
                            unread_handle.consumed(),
                            destination_handle.write_three_return_written(0x1Bu8, 0x28u8, 0x42u8),
                        );
                    }''',
     '''                    if c > '\\u{FFFF}' {
                        return (
                            EncoderResult::Unmappable(c),
                            unread_handle.consumed(),
                            destination_handle.written(),
                        );
                    }''', None),
    ('utf16_pending_bmp_zero_skipped', ['C18', 'C02'], 'src/handles.rs',
     '''    fn write_bmp(&mut self, bmp: u16) {
        self.write_code_unit(bmp);
    }''',
     '''    fn write_bmp(&mut self, bmp: u16) {
        if bmp == 0 {
            // the buffer is zero-initialised anyway
            self.pos += 1;
            return;
        }
        self.write_code_unit(bmp);
    }''', None),
    # --- second batch: spots the sub-agents' changes did not touch
    ('for_bom_accepts_ef_bb_only', ['C10'], 'src/lib.rs',
     '''        if buffer.starts_with(b"\\xEF\\xBB\\xBF") {
            Some((UTF_8, 3))''',
     '''        if buffer.starts_with(b"\\xEF\\xBB") {
            Some((UTF_8, 3))''', None),
    ('iso2022jp_has_pending_state_ignores_roman', ['C12'], 'src/iso_2022_jp.rs',
     '''        !matches!(self.state, Iso2022JpEncoderState::Ascii)''',
     '''        matches!(self.state, Iso2022JpEncoderState::Jis0208)''', None),
    ('iso2022jp_encoder_query_drops_end_transition', ['C07'], 'src/iso_2022_jp.rs',
     '''        checked_add_opt(
            checked_add(3, u16_length.checked_mul(4)),
            checked_div(u16_length.checked_add(1), 2),
        )''',
     '''        checked_add_opt(
            u16_length.checked_mul(4),
            checked_div(u16_length.checked_add(1), 2),
        )''', None),
]


def sh(cmd, **kw):
    return subprocess.run(cmd, shell=True, stdout=subprocess.PIPE, stderr=subprocess.STDOUT, text=True, **kw)


def main():
    names = sys.argv[1:]
    os.makedirs(SCRATCH, exist_ok=True)
    if not os.path.exists(REPO):
        sh('git clone -q /repo %s' % REPO)
    sh('git -C %s fetch -q origin && git -C %s checkout -q --detach origin/main' % (REPO, REPO))
    head = sh('git -C /repo rev-parse HEAD').stdout.strip()
    sh('git -C %s fetch -q /repo %s && git -C %s checkout -q --detach %s' % (REPO, head, REPO, head))
    results = {}
    out_path = '/verif/sens/own_results.json'
    if os.path.exists(out_path):
        results = json.load(open(out_path))
    for name, expected, path, old, new, occ in MUTANTS:
        if names and name not in names:
            continue
        sh('git -C %s checkout -q -- .' % REPO)
        src = open(REPO + '/' + path).read()
        n = src.count(old)
        if n == 0 or (occ is None and n != 1):
            print('%s: pattern occurs %d times - skipped' % (name, n), flush=True)
            results[name] = {'error': 'pattern occurs %d times' % n}
            continue
        if occ is None:
            src = src.replace(old, new)
        else:
            parts = src.split(old)
            src = old.join(parts[:occ + 1]) + new + old.join(parts[occ + 1:])
        open(REPO + '/' + path, 'w').write(src)
        diff = sh('git -C %s diff' % REPO).stdout
        t = sh('cd %s && CARGO_NET_OFFLINE=true cargo test --offline 2>&1 | grep -E "^test result|FAILED|error" | head' % REPO)
        suite_ok = 'FAILED' not in t.stdout and 'error' not in t.stdout and 'test result: ok' in t.stdout
        r = {'expected': expected, 'suite_passes': suite_ok, 'checks': {}, 'diff': diff}
        print('%s: suite %s' % (name, 'passes' if suite_ok else 'FAILS -> mutant dropped'), flush=True)
        if suite_ok:
            env = dict(os.environ, VERIF_REPO=REPO, VERIF_SCRATCH=SCRATCH + '/out', VERIF_SCALE=os.environ.get('SENS_SCALE', '0.3'))
            for p in PROPS:
                c = subprocess.run(['/verif/check', p, 'quick'], env=env, stdout=subprocess.PIPE, stderr=subprocess.STDOUT, text=True)
                lines = [l for l in c.stdout.splitlines() if l.startswith('VIOLATION') or l.startswith('violation:') or l.startswith('HARNESS')]
                r['checks'][p] = {'exit': c.returncode, 'lines': lines[:6]}
                print('   %s exit=%d %s' % (p, c.returncode, (lines[0][:160] if lines else '')), flush=True)
        results[name] = r
        json.dump(results, open(out_path, 'w'), indent=1)
    sh('git -C %s checkout -q -- .' % REPO)


if __name__ == '__main__':
    main()
