#!/usr/bin/env python3
"""Confirm and evaluate a property-breaking change written by a sub-agent.

usage: eval_seeded.py <id> <property> <mutant dir with patch.diff, demo_*.rs, notes.md> [extra cargo args for the demo...]

Steps (all in a scratch clone of /repo's HEAD, never in /repo):
  1. clean tree: the demonstration passes;
  2. patch applied: the crate's whole existing suite still passes, the
     demonstration fails;
  3. every claimed check's quick command is run against the patched clone.
The change is kept as /verif/seeded/<id>/ only if 1 and 2 hold.
"""
import glob
import json
import os
import shutil
import subprocess
import sys


def sh(cmd, **kw):
    return subprocess.run(cmd, shell=True, stdout=subprocess.PIPE, stderr=subprocess.STDOUT, text=True, **kw)


PROPS = ['C02', 'C04', 'C05', 'C06', 'C07', 'C08', 'C09', 'C10', 'C12', 'C17', 'C18', 'C19']
if os.environ.get('SENS_PROPS'):  # time-boxed rounds: only these checks are run (recorded in meta.json as checks_run)
    PROPS = os.environ['SENS_PROPS'].split(',')


def main():
    mid, prop, mdir = sys.argv[1], sys.argv[2], sys.argv[3]
    demo_args = ' '.join(sys.argv[4:])
    scratch = '/var/tmp/sens-%s' % mid
    repo = scratch + '/repo'
    os.makedirs(scratch, exist_ok=True)
    if not os.path.exists(repo):
        sh('git clone -q /repo %s' % repo)
    head = sh('git -C /repo rev-parse HEAD').stdout.strip()
    sh('git -C %s fetch -q /repo %s; git -C %s checkout -q --detach %s; git -C %s checkout -q -- .; git -C %s clean -fdq -e target' % (repo, head, repo, head, repo, repo))
    demos = sorted(glob.glob(mdir + '/demo_*.rs'))
    if not demos or not os.path.exists(mdir + '/patch.diff'):
        print('missing demo or patch in', mdir)
        return 2
    demo = demos[0]
    tname = os.path.basename(demo)[:-3]
    meta = {'id': mid, 'property': prop, 'source': 'independent sub-agent (saw only the property text)', 'head': head}
    # 1. clean: demo passes
    shutil.copy(demo, repo + '/tests/' + os.path.basename(demo))
    toolchain = '+nightly ' if 'simd-accel' in demo_args else ''
    c = sh('cd %s && CARGO_NET_OFFLINE=true cargo %stest --offline --test %s %s 2>&1 | tail -15' % (repo, toolchain, tname, demo_args))
    meta['demo_passes_on_clean_tree'] = 'test result: ok' in c.stdout and 'FAILED' not in c.stdout
    os.remove(repo + '/tests/' + os.path.basename(demo))
    # 2. patched: suite passes, demo fails
    a = sh('git -C %s apply %s' % (repo, os.path.abspath(mdir + '/patch.diff')))
    if a.returncode != 0:
        print('patch does not apply:', a.stdout)
        return 2
    t = sh('cd %s && CARGO_NET_OFFLINE=true cargo test --offline 2>&1 | grep -E "^test result|FAILED|^error" | head' % repo)
    meta['existing_suite_passes_with_change'] = 'FAILED' not in t.stdout and 'error' not in t.stdout and t.stdout.count('test result: ok') >= 3
    shutil.copy(demo, repo + '/tests/' + os.path.basename(demo))
    c2 = sh('cd %s && CARGO_NET_OFFLINE=true cargo %stest --offline --test %s %s 2>&1 | tail -15' % (repo, toolchain, tname, demo_args))
    meta['demo_fails_with_change'] = any(t in c2.stdout for t in ('FAILED', 'panicked', 'error: test failed', 'SIGABRT', 'SIGSEGV', 'signal:'))
    os.remove(repo + '/tests/' + os.path.basename(demo))
    meta['commands'] = ['cargo %stest --offline --test %s %s   (clean tree: passes; with patch: fails)' % (toolchain, tname, demo_args),
                        'cargo test --offline   (with patch: whole existing suite passes)',
                        'VERIF_REPO=<patched scratch clone> ./check <Cxx> quick   for all claimed properties']
    confirmed = meta['demo_passes_on_clean_tree'] and meta['existing_suite_passes_with_change'] and meta['demo_fails_with_change']
    meta['confirmed'] = confirmed
    print(mid, 'confirmed' if confirmed else 'NOT CONFIRMED', {k: meta[k] for k in ('demo_passes_on_clean_tree', 'existing_suite_passes_with_change', 'demo_fails_with_change')}, flush=True)
    if not confirmed:
        print(c.stdout[-800:], t.stdout[-800:], c2.stdout[-800:])
    # 3. the checks, run from a snapshot of the machinery so that edits made to
    # /verif while this evaluation runs cannot disturb it
    meta['checks'] = {}
    if confirmed:
        snap = scratch + '/verif'
        sh('rm -rf %s; mkdir -p %s/sim %s/replays' % (snap, snap, snap))
        sh('cp /verif/check /verif/verif.py /verif/xcfg.py /verif/known_findings.json %s/; cp -r /verif/replays/regress %s/replays/; '
           'cp -r /verif/sim/src /verif/sim/Cargo.toml /verif/sim/Cargo.lock /verif/sim/.cargo %s/sim/' % (snap, snap, snap))
        meta['machinery_commit'] = sh('git -C /verif rev-parse --short HEAD').stdout.strip()
        env = dict(os.environ, VERIF_REPO=repo, VERIF_SCRATCH=scratch + '/out', VERIF_SCALE=os.environ.get('SENS_SCALE', '1'))
        for p in PROPS:
            r = subprocess.run([snap + '/check', p, 'quick'], env=env, stdout=subprocess.PIPE, stderr=subprocess.STDOUT, text=True)
            lines = [l for l in r.stdout.splitlines() if l.startswith('VIOLATION') or l.startswith('violation:') or l.startswith('  detail') or l.startswith('HARNESS')]
            meta['checks'][p] = {'exit': r.returncode, 'lines': [l[:400] for l in lines[:6]]}
            # witness faithfulness: each minimised replay must pass on the unchanged tree
            # (a witness that also "fails" there shows nothing about the change)
            if r.returncode == 1:
                faithful = []
                for l in lines:
                    if l.startswith('VIOLATION') and 'replay=' in l:
                        path = l.split('replay=')[1].strip()
                        if os.path.exists(path):
                            c = subprocess.run(['/verif/check', 'replay', path], stdout=subprocess.PIPE, stderr=subprocess.STDOUT, text=True)
                            faithful.append(c.returncode == 0)
                meta['checks'][p]['witnesses_pass_on_unchanged_tree'] = faithful
            print('   %s exit=%d %s' % (p, r.returncode, (lines[0][:200] if lines else '')), flush=True)
        meta['checks_run'] = list(PROPS)
        meta['caught_by'] = [p for p in PROPS if meta['checks'][p]['exit'] == 1]
        meta['caught_by_own_property_check'] = prop in meta['caught_by']
    out = '/verif/seeded/' + mid
    if confirmed:
        os.makedirs(out, exist_ok=True)
        shutil.copy(mdir + '/patch.diff', out + '/patch.diff')
        shutil.copy(demo, out + '/' + os.path.basename(demo))
        if os.path.exists(mdir + '/notes.md'):
            shutil.copy(mdir + '/notes.md', out + '/notes.md')
            meta['needs_to_manifest'] = 'see notes.md (written by the sub-agent)'
        json.dump(meta, open(out + '/meta.json', 'w'), indent=1)
    sh('git -C %s checkout -q -- .' % repo)
    return 0


if __name__ == '__main__':
    sys.exit(main())
