#!/usr/bin/env python3
"""False-alarm experiment: a behaviour-changing but contract-preserving source
change written by a sub-agent (who was given the property texts and asked to
keep them all true) is applied to a scratch clone of /repo; every claimed
check's quick command must stay silent (exit 0).

usage: eval_benign.py <id> <dir with patch.diff, notes.md, benign_*.rs>
"""
import glob
import json
import os
import shutil
import subprocess
import sys

PROPS = ['C02', 'C04', 'C05', 'C06', 'C07', 'C08', 'C09', 'C10', 'C12', 'C17', 'C18', 'C19']


def sh(cmd, **kw):
    return subprocess.run(cmd, shell=True, stdout=subprocess.PIPE, stderr=subprocess.STDOUT, text=True, **kw)


def main():
    mid, mdir = sys.argv[1], sys.argv[2]
    scratch = '/var/tmp/sens-%s' % mid
    repo = scratch + '/repo'
    os.makedirs(scratch, exist_ok=True)
    if not os.path.exists(repo):
        sh('git clone -q /repo %s' % repo)
    head = sh('git -C /repo rev-parse HEAD').stdout.strip()
    sh('git -C %s fetch -q /repo %s; git -C %s checkout -q --detach %s; git -C %s checkout -q -- .; git -C %s clean -fdq -e target' % (repo, head, repo, head, repo, repo))
    a = sh('git -C %s apply %s' % (repo, os.path.abspath(mdir + '/patch.diff')))
    if a.returncode != 0:
        print('patch does not apply:', a.stdout)
        return 2
    t = sh('cd %s && CARGO_NET_OFFLINE=true cargo test --offline 2>&1 | grep -E "^test result|FAILED|^error" | head' % repo)
    meta = {'id': mid, 'kind': 'benign (contract-preserving) change', 'head': head,
            'existing_suite_passes_with_change': 'FAILED' not in t.stdout and 'error' not in t.stdout and t.stdout.count('test result: ok') >= 3}
    print(mid, 'suite', 'passes' if meta['existing_suite_passes_with_change'] else 'FAILS', flush=True)
    snap = scratch + '/verif'
    sh('rm -rf %s; mkdir -p %s/sim %s/replays' % (snap, snap, snap))
    sh('cp /verif/check /verif/verif.py /verif/xcfg.py /verif/known_findings.json %s/; cp -r /verif/replays/regress %s/replays/; '
       'cp -r /verif/sim/src /verif/sim/Cargo.toml /verif/sim/Cargo.lock /verif/sim/.cargo %s/sim/' % (snap, snap, snap))
    meta['machinery_commit'] = sh('git -C /verif rev-parse --short HEAD').stdout.strip()
    meta['checks'] = {}
    env = dict(os.environ, VERIF_REPO=repo, VERIF_SCRATCH=scratch + '/out')
    for p in PROPS:
        r = subprocess.run([snap + '/check', p, 'quick'], env=env, stdout=subprocess.PIPE, stderr=subprocess.STDOUT, text=True)
        lines = [l for l in r.stdout.splitlines() if l.startswith('VIOLATION') or l.startswith('violation:') or l.startswith('  detail') or l.startswith('HARNESS')]
        meta['checks'][p] = {'exit': r.returncode, 'lines': [l[:500] for l in lines[:6]]}
        print('   %s exit=%d %s' % (p, r.returncode, (lines[0][:220] if lines else '')), flush=True)
    meta['alarms'] = [p for p in PROPS if meta['checks'][p]['exit'] != 0]
    out = '/verif/seeded_benign/' + mid
    os.makedirs(out, exist_ok=True)
    shutil.copy(mdir + '/patch.diff', out + '/patch.diff')
    for f in glob.glob(mdir + '/*.md') + glob.glob(mdir + '/benign_*.rs'):
        shutil.copy(f, out + '/' + os.path.basename(f))
    json.dump(meta, open(out + '/meta.json', 'w'), indent=1)
    sh('git -C %s checkout -q -- .' % repo)
    return 0


if __name__ == '__main__':
    sys.exit(main())
