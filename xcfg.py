"""C17 — cross-build replay of simulated histories (DESIGN.md section 4, C17).

The same seeds are executed by encsim linked against several builds of
/repo; because a run's transcript is a function of (seed, code) only, any
difference between two builds' transcripts is a behavioural difference
between build configurations. No oracle other than "the other build".
"""
import json
import os
import subprocess
import sys
import time

VERIF = os.path.dirname(os.path.abspath(__file__))
FOUND = VERIF + '/replays/found'
EVID = VERIF + '/evidence'


def configure(found, evid):
    global FOUND, EVID
    FOUND, EVID = found, evid

# (configuration name, build name in verif.BUILDS, extra encsim flags)
CONFIGS = [
    ('default', 'native', ['--no-skip-fast']),
    ('less-slow-kanji+big5+gb', 'lessslow', ['--no-skip-fast']),
    ('fast-legacy-encode', 'fast', ['--no-skip-fast']),
    ('simd-accel+std (nightly)', 'simd', ['--no-skip-fast']),
    ('default, scalar UTF-8 validation forced', 'native', ['--force-skip-fast']),
    ('default, debug assertions off', 'nodebug', ['--no-skip-fast']),
]


# the same feature sets with debug assertions and overflow checks off (the shipped profile)
CONFIGS_ND = [
    ('default, debug assertions off', 'nodebug', ['--no-skip-fast']),
    ('less-slow-kanji+big5+gb, debug assertions off', 'lessslow-nd', ['--no-skip-fast']),
    ('fast-legacy-encode, debug assertions off', 'fast-nd', ['--no-skip-fast']),
    ('simd-accel+std (nightly), debug assertions off', 'simd-nd', ['--no-skip-fast']),
    ('default, debug assertions off, scalar UTF-8 validation forced', 'nodebug', ['--force-skip-fast']),
]


def say(*a):
    print(*a, flush=True)


def digests(binary, seed, threads, start, runs, block, extra):
    p = subprocess.run([binary, 'digest', 'C17', '--seed', str(seed), '--threads', str(threads), '--start', str(start), '--runs', str(runs),
                        '--block', str(block)] + extra, stdout=subprocess.PIPE, text=True)
    if p.returncode != 0:
        raise RuntimeError('digest failed')
    out = {}
    for line in p.stdout.splitlines():
        f = line.split()
        out[int(f[0])] = f[1]
    return out


def trace(binary, seed, index, extra):
    p = subprocess.run([binary, 'trace', 'C17', '--seed', str(seed), '--run', str(index), '--calls'] + extra, stdout=subprocess.PIPE, text=True)
    return json.loads(p.stdout)


def first_difference(base, other, seed, threads, total):
    """Smallest run index whose transcript differs between two builds."""
    (bbin, bextra), (obin, oextra) = base, other
    for block in (4096, 64, 1):
        pass
    lo, n = 0, total
    for block in (4096, 64, 1):
        a = digests(bbin, seed, threads, lo, n, block, bextra)
        b = digests(obin, seed, threads, lo, n, block, oextra)
        diff = sorted(k for k in a if a[k] != b.get(k))
        if not diff:
            return None
        lo, n = diff[0], block
    return lo


def run(tier, seed, threads, ev_path, scale, build, configs=None):
    global CONFIGS
    if configs is not None:
        CONFIGS = configs
    t0 = time.time()
    n = int((300000 if tier == 'quick' else 2600000) * scale)
    os.makedirs(FOUND, exist_ok=True)
    os.makedirs(EVID + '/parts', exist_ok=True)
    results = []
    died = []
    bins = {}
    for name, b, extra in CONFIGS:
        try:
            bins[name] = (build(b), extra)
        except Exception as e:
            if b == 'native':
                raise
            say('WARNING: %s - configuration "%s" skipped (it does not build)' % (e, name))
            continue
        part = '%s/parts/C17.%s.json' % (EVID, b + ('-scalar' if '--force-skip-fast' in extra else ''))
        args = [bins[name][0], 'run', 'C17', '--seed', str(seed), '--threads', str(threads), '--runs', str(n), '--replay-dir', FOUND,
                '--known', VERIF + '/known_findings.json', '--substrate', name, '--tier', tier, '--stats-out', part] + extra
        note = part + '.death'
        if os.path.exists(note):
            os.remove(note)
        p = subprocess.run(args + ['--death-note', note], stdout=subprocess.PIPE, stderr=subprocess.PIPE, text=True)
        if p.returncode not in (0, 1, 2):
            # the code under test killed the process (unsafe-precondition check, segfault)
            tail = ' | '.join([l for l in p.stderr.strip().splitlines() if l.strip()][-3:])[:300]
            say('%-45s killed by the code under test: %s' % (name, tail))
            died.append((name, open(note).read().split() if os.path.exists(note) else None, tail))
            continue
        if p.returncode != 0 and p.returncode != 1:
            sys.stdout.write(p.stdout)
            sys.stderr.write(p.stderr)
            sys.stderr.write('HARNESS ERROR: C17 run failed on configuration %s\n' % name)
            return 2
        j = json.load(open(part))
        results.append((name, j))
        say('%-45s %d runs, %d converter calls, transcript digest %s' % (name, j['coverage']['evaluations'], j['coverage']['converter_calls'], j['coverage']['transcript_digest']))
    rc = 0
    replays = []
    if died:
        default_died = not results or results[0][0] != CONFIGS[0][0]
        if not results:
            sys.stderr.write('HARNESS ERROR: every configuration is killed by the code under test (memory-safety checks abort the process: that is C06\'s to report - ./check C06); C17 cannot compare builds\n')
            return 2
        # some builds die where another build with the same assertion settings completes the same runs:
        # that is a behavioural difference between builds (the assertions-off build is left out of this
        # comparison: it is expected to survive what a debug assertion or precondition check stops)
        assert_on = [c[0] for c in CONFIGS if c[1] != 'nodebug']
        survivors = [name for name, _ in results if name in assert_on]
        pairs = [(survivors[0], d) for d in died if d[0] in assert_on] if survivors else []
        for survivor, (name, note, tail) in pairs:
            idx = int(note[2]) if note else -1
            path = '%s/C17-build-killed-%d-%d.json' % (FOUND, seed, idx)
            detail = 'configuration "%s" kills the process in run %d (%s) while "%s" completes the same runs' % (name, idx, tail, survivor)
            with open(path, 'w') as f:
                json.dump({'format': 1, 'kind': 'build-killed', 'property': 'C17', 'oracle': 'build-killed-process', 'detail': detail, 'verif_seed': seed, 'run_index': idx,
                           'configs': [survivor, name], 'violation_line': 'VIOLATION property=C17 replay=%s' % path}, f, indent=1)
            say('violation: ' + detail)
            say('VIOLATION property=C17 replay=%s' % path)
            replays.append(path)
            rc = 1
    base_name, base = results[0]
    for name, j in results[1:]:
        if j['coverage']['transcript_digest'] == base['coverage']['transcript_digest']:
            continue
        idx = first_difference(bins[base_name], bins[name], seed, threads, n)
        if idx is None:
            idx = first_difference(bins[base_name], bins[name], seed, threads, n)
        if idx is None:
            sys.stderr.write('HARNESS ERROR: the batch digests of %s and %s differ but no single run differs when re-executed: the transcripts are not a function of the run '
                             '(output that depends on memory the call did not store? that is C18\'s to report - ./check C18); C17 cannot name a differing run\n' % (base_name, name))
            return 2
        ta = trace(bins[base_name][0], seed, idx, bins[base_name][1])
        tb = trace(bins[name][0], seed, idx, bins[name][1])
        path = '%s/C17-transcript-differs-%d-%d.json' % (FOUND, seed, idx)
        detail = 'run %d: transcript %s under "%s" but %s under "%s"' % (idx, ta['transcript'], base_name, tb['transcript'], name)
        # first differing call, for the reader
        for k, (ca, cb) in enumerate(zip(ta.get('call_log', []), tb.get('call_log', []))):
            if ca != cb:
                detail += '; first differing call %d: [%s] vs [%s]' % (k, ca, cb)
                break
        with open(path, 'w') as f:
            json.dump({'format': 1, 'property': 'C17', 'oracle': 'transcript-differs-between-builds', 'detail': detail, 'verif_seed': seed, 'run_index': idx,
                       'configs': [base_name, name], 'case': ta['case'], 'transcripts': {base_name: ta, name: tb},
                       'violation_line': 'VIOLATION property=C17 replay=%s' % path}, f, indent=1)
        say('violation: ' + detail[:1500])
        say('VIOLATION property=C17 replay=%s' % path)
        replays.append(path)
        rc = 1
    if died and results[0][0] != CONFIGS[0][0] and rc == 0:
        if configs is None:
            say('the default configuration is killed by the code under test (memory-safety checks abort the process: that is C06\'s to report - ./check C06); '
                'comparing the same feature sets built without debug assertions instead')
            return run(tier, seed, threads, ev_path, scale, build, configs=CONFIGS_ND)
        sys.stderr.write('HARNESS ERROR: every configuration is killed by the code under test; C17 cannot compare builds (see ./check C06)\n')
        return 2
    # evidence
    cov = dict(base['coverage'])
    cov['evaluations_per_configuration'] = base['coverage']['evaluations']
    cov['evaluations'] = sum(j['coverage']['evaluations'] for _, j in results)
    cov['configurations'] = [{'name': name, 'transcript_digest': j['coverage']['transcript_digest'], 'runs': j['coverage']['evaluations'],
                              'converter_calls': j['coverage']['converter_calls'], 'wall_s': j['wall_s']} for name, j in results]
    cov['rule'] = ('Each run (same generator as the C02/C04 scenarios, CJK-weighted, every other run a systematic sweep pushing one block of 48 consecutive scalar values '
                   'through one of the seven CJK encoders: run k covers block (k/2)/7, one full cycle = 324 954 runs per source form) is executed by every build configuration; compared is the digest of the logical '
                   'transcript (per call: arguments, result tuple, dst[..written]). ' + base['coverage']['rule'])
    cov['replays'] = replays
    ev = dict(base)
    ev['coverage'] = cov
    ev['property_id'] = 'C17'
    ev['violations'] = len(replays)
    ev['wall_s'] = round(time.time() - t0, 2)
    ev['assumptions'] = ['configurations compared: ' + ', '.join(c[0] for c in CONFIGS),
                         'only the simulated streaming histories are compared, not the pure functions of C14-C16',
                         'sampling: identical digests are evidence, not proof']
    with open(ev_path, 'w') as f:
        json.dump(ev, f, indent=1)
    return rc


def replay(path, build):
    j = json.load(open(path))
    names = j['configs']
    cfg = {c[0]: c for c in CONFIGS + CONFIGS_ND}
    if j.get('kind') == 'build-killed':
        outcomes = []
        for n in names:
            _, b, extra = cfg[n]
            p = subprocess.run([build(b), 'trace', 'C17', '--seed', str(j['verif_seed']), '--run', str(j['run_index'])] + extra, stdout=subprocess.PIPE, stderr=subprocess.PIPE, text=True)
            outcomes.append(p.returncode)
        if (outcomes[0] == 0) != (outcomes[1] == 0):
            say('reproduced: run %d exits with status %d under "%s" but %d under "%s"' % (j['run_index'], outcomes[0], names[0], outcomes[1], names[1]))
            say('VIOLATION property=C17 replay=%s' % path)
            return 1
        say('replay of %s: both configurations behave alike on this tree' % path)
        return 0
    ts = []
    for n in names:
        _, b, extra = cfg[n]
        ts.append(trace(build(b), j['verif_seed'], j['run_index'], extra))
    if ts[0]['transcript'] != ts[1]['transcript']:
        say('reproduced: run %d: transcript %s under "%s" but %s under "%s"' % (j['run_index'], ts[0]['transcript'], names[0], ts[1]['transcript'], names[1]))
        say('VIOLATION property=C17 replay=%s' % path)
        return 1
    say('replay of %s: transcripts agree on this tree' % path)
    return 0
