#!/usr/bin/env python3
"""Orchestration of the encsim substrates (see DESIGN.md section 2.7, 6).

  verif.py setup
  verif.py <Cxx> quick|thorough
  verif.py replay <file>
  verif.py selftest-determinism [runs]

Exit codes: 0 held, 1 violation (a `VIOLATION property=.. replay=..` line was
printed), 2 harness error (never prints VIOLATION).
"""
import glob
import hashlib
import json
import os
import subprocess
import sys
import time

VERIF = os.path.dirname(os.path.abspath(__file__))
SIM = VERIF + '/sim'
TGT = VERIF + '/target'
KNOWN = VERIF + '/known_findings.json'
FOUND = VERIF + '/replays/found'
REGRESS = VERIF + '/replays/regress'
EVID = VERIF + '/evidence'
# Sensitivity experiments only (never used by the registered commands): run the
# same machinery against a scratch copy of the repository, with all build
# output, evidence and replays kept under a scratch root.
ALT_REPO = os.environ.get('VERIF_REPO')
if ALT_REPO:
    SCRATCH = os.environ.get('VERIF_SCRATCH') or (ALT_REPO.rstrip('/') + '.verif')
    TGT = SCRATCH + '/target'
    FOUND = SCRATCH + '/found'
    EVID = SCRATCH + '/evidence'
    os.makedirs(SCRATCH + '/sim', exist_ok=True)
    with open(SCRATCH + '/sim/Cargo.toml', 'w') as _f:
        _f.write(open(SIM + '/Cargo.toml').read().replace('path = "/repo"', 'path = "%s"' % ALT_REPO))
    for _n in ('Cargo.lock',):
        with open(SCRATCH + '/sim/' + _n, 'w') as _f:
            _f.write(open(SIM + '/' + _n).read())
    os.makedirs(SCRATCH + '/sim/.cargo', exist_ok=True)
    with open(SCRATCH + '/sim/.cargo/config.toml', 'w') as _f:
        _f.write(open(SIM + '/.cargo/config.toml').read())
    if os.path.islink(SCRATCH + '/sim/src') and os.readlink(SCRATCH + '/sim/src') != SIM + '/src':
        os.remove(SCRATCH + '/sim/src')
    if not os.path.lexists(SCRATCH + '/sim/src'):
        os.symlink(SIM + '/src', SCRATCH + '/sim/src')
    SIM = SCRATCH + '/sim'
PARTS = EVID + '/parts'
SEED = int(os.environ.get('VERIF_SEED', '1') or '1')
THREADS = int(os.environ.get('VERIF_THREADS', str(os.cpu_count() or 4)))
SCALE = float(os.environ.get('VERIF_SCALE', '1'))

CLAIMED = ['C02', 'C04', 'C05', 'C06', 'C07', 'C08', 'C09', 'C10', 'C12', 'C17', 'C18', 'C19']

ENV = dict(os.environ, CARGO_NET_OFFLINE='true', CARGO_TERM_COLOR='never')

BUILDS = {
    #  name: (cargo args, extra env, target dir, binary relative to target dir)
    'native': (['cargo', 'build', '--release', '--offline'], {}, 'native', 'release/encsim'),
    'nodebug': (['cargo', 'build', '--profile', 'nodebug', '--offline'], {}, 'native', 'nodebug/encsim'),
    'lessslow': (['cargo', 'build', '--release', '--offline', '--features', 'less-slow'], {}, 'lessslow', 'release/encsim'),
    'fast': (['cargo', 'build', '--release', '--offline', '--features', 'fast-legacy'], {}, 'fast', 'release/encsim'),
    'simd': (['cargo', '+nightly', 'build', '--release', '--offline', '--features', 'simd'], {}, 'simd', 'release/encsim'),
    # assertions-off variants of the feature builds (C17 falls back to them when the code under test makes the
    # assertion-carrying builds abort)
    'lessslow-nd': (['cargo', 'build', '--profile', 'nodebug', '--offline', '--features', 'less-slow'], {}, 'lessslow', 'nodebug/encsim'),
    'fast-nd': (['cargo', 'build', '--profile', 'nodebug', '--offline', '--features', 'fast-legacy'], {}, 'fast', 'nodebug/encsim'),
    'simd-nd': (['cargo', '+nightly', 'build', '--profile', 'nodebug', '--offline', '--features', 'simd'], {}, 'simd', 'nodebug/encsim'),
    'asan': (['cargo', '+nightly', 'build', '--release', '--offline', '--features', 'asan', '--target', 'x86_64-unknown-linux-gnu'],
             {'RUSTFLAGS': '-Zsanitizer=address'}, 'asan', 'x86_64-unknown-linux-gnu/release/encsim'),
}

MIRI_ENV = {'MIRIFLAGS': '-Zmiri-disable-isolation', 'CARGO_TARGET_DIR': TGT + '/miri'}


class HarnessError(Exception):
    pass


def say(*a):
    print(*a, flush=True)


def build(name):
    """(Re)build one configuration of encsim against /repo's working tree."""
    args, env, tdir, rel = BUILDS[name]
    e = dict(ENV, CARGO_TARGET_DIR=TGT + '/' + tdir, **env)
    p = subprocess.run(args, cwd=SIM, env=e, stdout=subprocess.PIPE, stderr=subprocess.STDOUT, text=True)
    if p.returncode != 0:
        sys.stderr.write(p.stdout[-6000:])
        raise HarnessError('%s build failed (does /repo still compile?)' % name)
    return TGT + '/' + tdir + '/' + rel


def miri_cmd(args):
    return ['cargo', '+nightly', 'miri', 'run', '--offline', '--'] + args


def build_miri():
    e = dict(ENV, **MIRI_ENV)
    p = subprocess.run(miri_cmd(['run', 'C18', '--runs', '0', '--threads', '1', '--replay-dir', FOUND]), cwd=SIM, env=e,
                       stdout=subprocess.PIPE, stderr=subprocess.STDOUT, text=True)
    if p.returncode != 0:
        sys.stderr.write(p.stdout[-6000:])
        raise HarnessError('miri build failed')


def native_trace(native, prop, seed, index, extra):
    """Explicit trace (case + recorded ops) of one run, produced natively."""
    p = subprocess.run([native, 'trace', prop, '--seed', str(seed), '--run', str(index)] + extra, stdout=subprocess.PIPE, text=True)
    try:
        return json.loads(p.stdout)['case']
    except Exception:
        return None


def write_replay(prop, oracle, detail, seed, index, substrate, case, tiny=False, skip=None):
    os.makedirs(FOUND, exist_ok=True)
    path = '%s/%s-%s-%d-%d.json' % (FOUND, prop, oracle, seed, index)
    j = {'format': 1, 'property': prop, 'oracle': oracle, 'detail': detail, 'verif_seed': seed, 'run_index': index,
         'substrate': substrate, 'case': case, 'violation_line': 'VIOLATION property=%s replay=%s' % (prop, path)}
    if case is None:
        # the explicit trace could not be produced (the tracing process died too):
        # a run is a pure function of (seed, index, code), so the seed replay is exact
        j['kind'] = 'seed'
        j['tiny'] = tiny
        if skip is not None:
            j['skip_fast_utf8'] = skip
        del j['case']
    with open(path, 'w') as f:
        json.dump(j, f, indent=1)
    return path


def sanitizer_summary(stderr):
    for line in stderr.splitlines():
        if 'ERROR: AddressSanitizer' in line or 'Undefined Behavior' in line or 'unsupported operation' in line or line.startswith('error:'):
            return line.strip()[:300]
    return stderr.strip().splitlines()[-1][:300] if stderr.strip() else 'process died'


def replay_dies(cmd, env, cwd=None):
    """Run a replay on a substrate that kills the process on a finding."""
    p = subprocess.run(cmd, env=env, cwd=cwd, stdout=subprocess.PIPE, stderr=subprocess.PIPE, text=True)
    died = p.returncode not in (0, 1, 2)
    return p, died


class Check:
    def __init__(self, prop, tier):
        self.prop = prop
        self.tier = tier
        self.rc = 0
        self.parts = {}
        self.dead = []
        self.skipped = []
        self.native = None

    def note(self, rc):
        # a reported violation (exit 1, VIOLATION line printed) stands even if another substrate then has
        # trouble of its own; a harness error alone gives exit 2
        if rc == 1:
            self.rc = 1
        elif rc != 0 and self.rc == 0:
            self.rc = 2

    def common(self, sub):
        return ['run', self.prop, '--seed', str(SEED), '--threads', str(THREADS), '--replay-dir', FOUND, '--known', KNOWN,
                '--substrate', sub, '--tier', self.tier]

    def amount(self, kind, n):
        if kind == 'runs':
            return ['--runs', str(max(1, int(n * SCALE)))]
        return ['--secs', str(max(1, int(n * SCALE)))]

    def regress(self):
        """Stored replays of repaired defects must stay silent on this tree."""
        for f in sorted(glob.glob('%s/%s-*.json' % (REGRESS, self.prop))):
            try:
                sub = json.load(open(f)).get('substrate', 'native')
            except Exception:
                raise HarnessError('unreadable regression replay ' + f)
            if sub == 'simd':
                if self.tier != 'thorough' and self.prop not in ('C05',):
                    continue
                binary = build('simd')
            else:
                binary = self.native
            p = subprocess.run([binary, 'replay', f], stdout=subprocess.PIPE, text=True)
            if p.returncode == 1:
                sys.stdout.write(p.stdout)
                say('(a repaired defect has returned: %s)' % os.path.basename(f))
            elif p.returncode != 0:
                sys.stdout.write(p.stdout)
            self.note(p.returncode)

    def died(self, sub, binary, status, stderr, note, extra):
        """A substrate process was killed (std's unsafe-precondition check or a
        debug assertion in a non-unwinding context aborts; real memory
        corruption may segfault). Turn that into a replayable violation of
        C06; other properties' checks carry on with their other substrates."""
        tail = [l for l in stderr.strip().splitlines() if l.strip()][-3:]
        summary = ' | '.join(tail)[:400] if tail else 'process died with status %d' % status
        if not os.path.exists(note):
            sys.stderr.write(stderr[-2000:])
            say('%s substrate was killed (status %d) and left no note of the run it was executing: %s' % (sub, status, summary))
            self.dead.append(sub)
            if self.prop == 'C06':
                self.note(2)
            return
        prop, seed, index = open(note).read().split()
        os.makedirs(FOUND, exist_ok=True)
        path = '%s/%s-process-aborted-%s-%s.json' % (FOUND, self.prop, seed, index)
        j = {'format': 1, 'kind': 'seed', 'property': self.prop, 'oracle': 'process-aborted', 'detail': summary, 'verif_seed': int(seed),
             'run_index': int(index), 'substrate': sub, 'skip_fast_utf8': None, 'tiny': False,
             'violation_line': 'VIOLATION property=%s replay=%s' % (self.prop, path)}
        # skip flag of that run: ask the binary's own rule through a trace on the nodebug build is overkill; the
        # replay regenerates the run from (seed, index) with the same rule
        j.pop('skip_fast_utf8')
        with open(path, 'w') as f:
            json.dump(j, f, indent=1)
        rp = subprocess.run([binary, 'replay', path] + extra, stdout=subprocess.PIPE, stderr=subprocess.PIPE, text=True)
        if rp.returncode in (0, 2):
            # e.g. glibc noticed a corrupted heap on a thread other than the one that corrupted it
            say('the %s substrate was killed in run %s (%s) but that run alone does not reproduce it from %s' % (sub, index, summary, path))
            self.dead.append(sub)
            if self.prop == 'C06':
                self.note(2)
            return
        say('violation: run %s killed the process on the %s substrate: %s' % (index, sub, summary))
        if self.prop == 'C06':
            say('VIOLATION property=C06 replay=%s' % path)
            self.note(1)
        else:
            say('(the abort is C06\'s to report - ./check C06; %s continues on its other substrates, replay kept at %s)' % (self.prop, path))
            self.dead.append(sub)

    def run_plain(self, sub, kind, n, extra=None):
        try:
            binary = self.native if sub == 'native' else build(sub)
        except HarnessError as e:
            if sub in ('native', 'nodebug'):
                raise
            # /repo compiles in the default configuration but not in this one (e.g. a change that is only
            # type-correct without simd-accel): say so and go on with the substrates that do build
            say('WARNING: %s - substrate %s skipped' % (e, sub))
            self.skipped.append(sub)
            return
        part = '%s/%s.%s.json' % (PARTS, self.prop, sub)
        note = '%s/%s.%s.death' % (PARTS, self.prop, sub)
        if os.path.exists(note):
            os.remove(note)
        args = [binary] + self.common(sub) + self.amount(kind, n) + (extra or []) + ['--stats-out', part, '--death-note', note]
        p = subprocess.run(args, stderr=subprocess.PIPE, text=True)
        if p.returncode in (0, 1, 2):
            sys.stderr.write(p.stderr)
            self.note(p.returncode)
            if os.path.exists(part):
                self.parts[sub] = [part]
            return
        self.died(sub, binary, p.returncode, p.stderr, note, [])

    def run_asan(self, kind, n):
        try:
            binary = build('asan')
        except HarnessError as e:
            say('WARNING: %s - substrate asan skipped' % e)
            self.skipped.append('asan')
            return
        note = '%s/%s.asan.death' % (PARTS, self.prop)
        part = '%s/%s.asan.json' % (PARTS, self.prop)
        if os.path.exists(note):
            os.remove(note)
        args = [binary] + self.common('asan') + self.amount(kind, n) + ['--exact-end', '--death-note', note, '--stats-out', part]
        env = dict(ENV, ASAN_OPTIONS='detect_leaks=0:abort_on_error=0')
        p = subprocess.run(args, env=env, stderr=subprocess.PIPE, text=True)
        if p.returncode in (0, 1, 2):
            sys.stderr.write(p.stderr)
            self.note(p.returncode)
            if os.path.exists(part):
                self.parts['asan'] = [part]
            return
        # the sanitizer killed the process: turn that into a replayable violation
        if 'AddressSanitizer' not in p.stderr:
            # killed by something else (std's unsafe-precondition check): same handling as on the plain substrates
            self.died('asan', binary, p.returncode, p.stderr, note, ['--exact-end'])
            return
        if not os.path.exists(note):
            sys.stderr.write(p.stderr[-4000:])
            say('HARNESS ERROR: asan substrate died and left no note of the run it was executing (status %d)' % p.returncode)
            self.note(2)
            return
        prop, seed, index = open(note).read().split()
        # traced on the assertions-off build: the native one may abort on the same run
        case = native_trace(build('nodebug'), prop, int(seed), int(index), [])
        summary = sanitizer_summary(p.stderr)
        path = write_replay(self.prop, 'asan-report', summary, int(seed), int(index), 'asan', case)
        rp, died = replay_dies([binary, 'replay', path, '--exact-end'], env)
        if not died or 'AddressSanitizer' not in rp.stderr:
            say('HARNESS ERROR: AddressSanitizer report in run %s did not reproduce from %s' % (index, path))
            sys.stderr.write(p.stderr[-3000:])
            self.note(2)
            return
        say('violation: AddressSanitizer report in run %s: %s' % (index, summary))
        say('VIOLATION property=%s replay=%s' % (self.prop, path))
        self.note(1)

    def run_miri(self, runs, procs):
        try:
            build_miri()
        except HarnessError as e:
            say('WARNING: %s - substrate miri skipped' % e)
            self.skipped.append('miri')
            return
        env = dict(ENV, **MIRI_ENV)
        runs = max(1, int(runs * SCALE))
        per = (runs + procs - 1) // procs
        ps = []
        for k in range(procs):
            part = '%s/%s.miri%d.json' % (PARTS, self.prop, k)
            args = miri_cmd(self.common('miri') + ['--threads', '1', '--start', str(k * per), '--runs', str(per), '--print-index', '--stats-out', part])
            ps.append((k, part, subprocess.Popen(args, cwd=SIM, env=env, stdout=subprocess.PIPE, stderr=subprocess.PIPE, text=True)))
        parts = []
        for k, part, p in ps:
            out, err = p.communicate()
            lines = [l for l in out.splitlines() if not l.startswith('run ')]
            if p.returncode in (0, 1, 2):
                say('\n'.join(l for l in lines if l.strip()))
                self.note(p.returncode)
                if os.path.exists(part):
                    parts.append(part)
                continue
            idx = [l for l in out.splitlines() if l.startswith('run ')]
            if not idx or ('Undefined Behavior' not in err and 'error:' not in err):
                sys.stderr.write(err[-4000:])
                say('HARNESS ERROR: miri substrate died without a Miri report (status %d)' % p.returncode)
                self.note(2)
                continue
            index = int(idx[-1].split()[1])
            summary = sanitizer_summary(err)
            case = native_trace(build('nodebug'), self.prop, SEED, index, ['--tiny', '--force-skip-fast'])
            path = write_replay(self.prop, 'miri-report', summary, SEED, index, 'miri', case, tiny=True, skip=True)
            rp, died = replay_dies(miri_cmd(['replay', path]), env, cwd=SIM)
            if not died:
                say('HARNESS ERROR: Miri report in run %d did not reproduce from %s' % (index, path))
                sys.stderr.write(err[-3000:])
                self.note(2)
                continue
            say('violation: Miri report in run %d: %s' % (index, summary))
            say('VIOLATION property=%s replay=%s' % (self.prop, path))
            self.note(1)
        if parts:
            self.parts['miri'] = parts

    def merge(self, order):
        """The evidence file = the statistics of the first substrate of the plan
        that completed, with the other substrates' statistics folded in."""
        ev_path = '%s/%s.json' % (EVID, self.prop)
        main = next((s for s in order if s in self.parts), None)
        if main is None:
            if self.rc == 1:
                return  # every substrate ended in a reported violation before it could write statistics
            raise HarnessError('no substrate completed for ' + self.prop)
        ev = json.load(open(self.parts[main][0]))
        cov = ev['coverage']
        subs = {}
        total = 0
        for sub in order:
            if sub not in self.parts:
                continue
            agg = {'evaluations': 0, 'distinct_nontrivial': 0, 'wall_s': 0.0, 'violations': 0, 'converter_calls': 0}
            for f in self.parts[sub]:
                try:
                    j = json.load(open(f))
                except Exception:
                    continue
                agg['evaluations'] += j['coverage']['evaluations']
                agg['distinct_nontrivial'] += j['coverage']['distinct_nontrivial']
                agg['converter_calls'] += j['coverage'].get('converter_calls', 0)
                agg['wall_s'] = max(agg['wall_s'], j['wall_s'])
                agg['violations'] += j.get('violations', 0)
                if sub != main and 'faults_fired' in j['coverage']:
                    agg['faults_fired'] = j['coverage']['faults_fired']
            subs[sub] = agg
            total += agg['evaluations']
        cov['substrates'] = subs
        cov['substrates_killed_by_the_code_under_test'] = self.dead
        cov['substrates_skipped_because_they_do_not_build'] = self.skipped
        cov['evaluations_main_substrate'] = cov['evaluations']
        cov['main_substrate'] = main
        cov['evaluations'] = total
        ev['violations'] = sum(s.get('violations', 0) for s in subs.values())
        ev['wall_s'] = round(time.time() - T0, 2)
        with open(ev_path, 'w') as f:
            json.dump(ev, f, indent=1)


# per property: which substrates, how much
def plan(prop, tier):
    if tier == 'quick':
        # every property: assertions on, assertions off, and the simd-accel implementation of the kernels
        p = [('native', 'runs', 2000000), ('nodebug', 'runs', 1000000), ('simd', 'runs', 500000)]
        if prop == 'C06':
            p += [('asan', 'runs', 150000)]
        if prop == 'C18':
            p += [('miri', 'runs', 32)]
        return p
    p = [('native', 'secs', 600), ('nodebug', 'secs', 120), ('simd', 'secs', 120)]
    if prop in ('C02', 'C04', 'C05', 'C06', 'C10', 'C18'):
        p += [('asan', 'secs', 120)]
    if prop in ('C05', 'C06', 'C18'):
        p += [('miri', 'runs', 3200)]
    return p


def check(prop, tier):
    os.makedirs(PARTS, exist_ok=True)
    os.makedirs(FOUND, exist_ok=True)
    ev_path = '%s/%s.json' % (EVID, prop)
    if os.path.exists(ev_path):
        os.remove(ev_path)
    for f in glob.glob('%s/%s.*' % (PARTS, prop)):
        os.remove(f)
    if prop == 'C17':
        import xcfg
        xcfg.configure(FOUND, EVID)
        return xcfg.run(tier, SEED, THREADS, ev_path, SCALE, build)
    c = Check(prop, tier)
    c.native = build('native')
    c.regress()
    order = []
    for sub, kind, n in plan(prop, tier):
        order.append(sub)
        if sub == 'asan':
            c.run_asan(kind, n)
        elif sub == 'miri':
            c.run_miri(n, 1 if tier == 'quick' else min(16, THREADS))
        else:
            c.run_plain(sub, kind, n)
            if sub == 'simd' and 'simd' in c.dead:
                # the assertion-carrying simd build was killed: look at the same kernels without assertions
                order.append('simd-nd')
                c.run_plain('simd-nd', kind, n)
    if c.rc == 2:
        return 2
    if c.rc == 0 and not c.parts:
        sys.stderr.write('HARNESS ERROR: every substrate of %s was killed by the code under test (memory-safety violations: see ./check C06)\n' % prop)
        return 2
    c.merge(order)
    return c.rc


def replay(path):
    if not os.path.isfile(path):
        raise HarnessError('no such replay file: ' + path)
    j = json.load(open(path))
    prop = j.get('property')
    sub = j.get('substrate', 'native')
    if prop == 'C17':
        import xcfg
        return xcfg.replay(path, build)
    if sub == 'asan':
        binary = build('asan')
        p, died = replay_dies([binary, 'replay', path, '--exact-end'], dict(ENV, ASAN_OPTIONS='detect_leaks=0'))
        sys.stdout.write(p.stdout)
        if died and 'AddressSanitizer' in p.stderr:
            say('reproduced: ' + sanitizer_summary(p.stderr))
            say('VIOLATION property=%s replay=%s' % (prop, path))
            return 1
        return p.returncode if p.returncode in (0, 1) else 2
    if sub == 'miri':
        build_miri()
        p, died = replay_dies(miri_cmd(['replay', path]), dict(ENV, **MIRI_ENV), cwd=SIM)
        sys.stdout.write(p.stdout)
        if died:
            say('reproduced: ' + sanitizer_summary(p.stderr))
            say('VIOLATION property=%s replay=%s' % (prop, path))
            return 1
        return p.returncode if p.returncode in (0, 1) else 2
    if sub not in BUILDS:
        sub = 'native'
    binary = build(sub)
    p = subprocess.run([binary, 'replay', path], stderr=subprocess.PIPE, text=True)
    if p.returncode not in (0, 1, 2):
        tail = [l for l in p.stderr.strip().splitlines() if l.strip()][-2:]
        say('reproduced: the process was killed (status %d): %s' % (p.returncode, ' | '.join(tail)[:300]))
        say('VIOLATION property=%s replay=%s' % (prop, path))
        return 1
    sys.stderr.write(p.stderr)
    return p.returncode if p.returncode in (0, 1) else 2


def selftest_determinism(runs):
    """Every run must be a pure function of (seed, property, run index): the
    per-run event-log digests must be identical between processes, at worker
    counts 1, 4 and 16, and between repeated executions."""
    native = build('native')
    ok = True
    report = {}
    for prop in [p for p in CLAIMED]:
        digests = []
        for threads in (1, 4, 16, 16):
            p = subprocess.run([native, 'determinism', prop, '--runs', str(runs), '--seed', str(SEED), '--threads', str(threads)],
                               stdout=subprocess.PIPE, text=True)
            if p.returncode != 0:
                raise HarnessError('determinism run failed for ' + prop)
            digests.append(hashlib.sha256(p.stdout.encode()).hexdigest())
        same = len(set(digests)) == 1
        report[prop] = {'runs': runs, 'processes': 4, 'worker_counts': [1, 4, 16, 16], 'identical': same, 'sha256': digests[0]}
        say('%s: %d runs x 4 processes at 1/4/16/16 workers: %s' % (prop, runs, 'identical' if same else 'DIVERGED'))
        ok = ok and same
    with open(VERIF + '/selftest_determinism.json', 'w') as f:
        json.dump({'seed': SEED, 'results': report}, f, indent=1)
    return 0 if ok else 2


def selftest_regress():
    """Every `fixed` entry of known_findings.json: its regression replay must
    reproduce the violation on the parent of the fix commit and be silent on
    the fix commit itself (scratch clone of /repo, removed afterwards)."""
    import shutil
    scratch = '/var/tmp/verif-selftest-regress'
    shutil.rmtree(scratch, ignore_errors=True)
    os.makedirs(scratch)
    subprocess.run(['git', 'clone', '-q', '/repo', scratch + '/repo'], check=True)
    ok = True
    report = []
    for e in json.load(open(KNOWN))['findings']:
        if e.get('status') != 'fixed':
            continue
        rp = VERIF + '/' + e['regression_replay']
        res = {}
        for label, rev, want in (('before', e['commit'] + '^', 1), ('after', e['commit'], 0)):
            subprocess.run(['git', '-C', scratch + '/repo', 'checkout', '-q', '--detach', rev], check=True)
            if label == 'before':
                # the verification hook is needed to build; it was committed before every fix
                pass
            env = dict(os.environ, VERIF_REPO=scratch + '/repo', VERIF_SCRATCH=scratch + '/out')
            p = subprocess.run([VERIF + '/check', 'replay', rp], env=env, stdout=subprocess.PIPE, stderr=subprocess.STDOUT, text=True)
            res[label] = p.returncode
            ok = ok and p.returncode == want
        say('%s %s (%s): replay exits %d before the fix, %d after  %s' % (e['id'], e['property'], e['commit'], res['before'], res['after'],
                                                                       'ok' if (res['before'], res['after']) == (1, 0) else 'UNEXPECTED'))
        report.append({'id': e['id'], 'property': e['property'], 'commit': e['commit'], 'replay': e['regression_replay'], 'exit_before_fix': res['before'], 'exit_after_fix': res['after']})
    shutil.rmtree(scratch, ignore_errors=True)
    with open(VERIF + '/selftest_regress.json', 'w') as f:
        json.dump({'results': report}, f, indent=1)
    return 0 if ok else 2


T0 = time.time()


def main(argv):
    if len(argv) < 2:
        say('usage: ./check setup | <Cxx> quick|thorough | replay <file> | selftest-determinism')
        return 2
    cmd = argv[1]
    try:
        if cmd == 'setup':
            for b in ('native', 'nodebug', 'simd', 'asan', 'lessslow', 'fast'):
                build(b)
            say('setup ok')
            return 0
        if cmd == 'replay':
            return replay(argv[2])
        if cmd == 'selftest-regress':
            return selftest_regress()
        if cmd == 'selftest-determinism':
            return selftest_determinism(int(argv[2]) if len(argv) > 2 else 20000)
        if cmd in CLAIMED:
            tier = os.environ.get('VERIF_TIER') or (argv[2] if len(argv) > 2 else 'quick')
            if tier not in ('quick', 'thorough'):
                raise HarnessError('tier must be quick or thorough')
            return check(cmd, tier)
        say('unknown command ' + cmd)
        return 2
    except HarnessError as e:
        sys.stderr.write('HARNESS ERROR: %s\n' % e)
        return 2


if __name__ == '__main__':
    sys.path.insert(0, VERIF)
    sys.exit(main(sys.argv))
