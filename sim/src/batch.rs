//! Seeded search over many simulated runs: parallel execution by run index,
//! statistics, minimisation, replay files, known findings, evidence.

use crate::dec::{Faults, Viol};
use crate::ops::*;
use crate::props::*;
use crate::rng::{mix64, Rng};
use serde_json::{json, Value};
use std::collections::BTreeMap;
use std::path::{Path, PathBuf};
use std::sync::atomic::{AtomicU64, Ordering};
use std::sync::Mutex;
use std::time::Instant;

#[derive(Clone, Debug)]
pub struct BatchCfg {
    pub prop: String,
    pub tier: String,
    pub seed: u64,
    pub runs: u64,
    pub secs: f64,
    pub threads: usize,
    pub evidence: Option<PathBuf>,
    pub replay_dir: PathBuf,
    pub known: PathBuf,
    pub substrate: String,
    pub force_skip_fast: bool,
    pub no_skip_fast: bool,
    pub start: u64,
    pub stats_out: Option<PathBuf>,
}

#[derive(Default)]
pub struct Stats {
    pub evaluations: u64,
    pub nontrivial: u64,
    pub sigs: Vec<u64>,
    pub calls: u64,
    pub events: u64,
    pub units: u64,
    pub faults: Faults,
    pub probes: BTreeMap<String, u64>,
    pub aborted: BTreeMap<String, u64>,
    pub other_alarms: BTreeMap<String, u64>,
    pub unfinished: u64,
    pub scenarios: BTreeMap<String, u64>,
    pub flags: BTreeMap<String, u64>,
    pub states: std::collections::BTreeSet<u64>,
    pub samples: Vec<(u64, Value)>,
    pub transcript_xor: u64,
    pub transcript_sum: u64,
}

impl Stats {
    fn merge(&mut self, o: Stats) {
        self.evaluations += o.evaluations;
        self.nontrivial += o.nontrivial;
        self.sigs.extend(o.sigs);
        self.calls += o.calls;
        self.events += o.events;
        self.units += o.units;
        self.faults.add(&o.faults);
        for (k, v) in o.probes {
            *self.probes.entry(k).or_insert(0) += v;
        }
        for (k, v) in o.aborted {
            *self.aborted.entry(k).or_insert(0) += v;
        }
        for (k, v) in o.other_alarms {
            *self.other_alarms.entry(k).or_insert(0) += v;
        }
        self.unfinished += o.unfinished;
        for (k, v) in o.scenarios {
            *self.scenarios.entry(k).or_insert(0) += v;
        }
        for (k, v) in o.flags {
            *self.flags.entry(k).or_insert(0) += v;
        }
        self.samples.extend(o.samples);
        self.states.extend(o.states);
        self.transcript_xor ^= o.transcript_xor;
        self.transcript_sum = self.transcript_sum.wrapping_add(o.transcript_sum);
    }
}

pub struct Found {
    pub run_index: u64,
    pub viol: Viol,
    pub case: Case,
}

pub fn skip_fast_for(cfg: &BatchCfg, i: u64) -> bool {
    if cfg.force_skip_fast {
        return true;
    }
    if cfg.no_skip_fast {
        return false;
    }
    mix64(cfg.seed ^ i.wrapping_mul(0xD6E8_FEB8_6659_FD93)) % 6 == 0
}

/// Normalise an abort reason so that it can be used as a counter key.
fn abort_key(s: &str) -> String {
    let t: String = s.chars().take(90).collect();
    // drop line numbers so that the key survives edits of the crate
    t.split(" @ ").next().unwrap_or(&t).to_string()
}

pub fn run_one(prop: &str, seed: u64, i: u64, skip_fast: bool) -> (Case, RunOut) {
    let mut rng = Rng::for_run(seed, scenario_id(prop), i);
    let (mut case, profile) = generate(prop, &mut rng, skip_fast, i);
    let out = execute(prop, &mut case, Source::Prng(&mut rng, profile));
    (case, out)
}

/// One slot per worker: which run it is executing and since when, so that a
/// converter call that never returns is noticed (a hang cannot be caught by
/// catch_unwind).
pub struct Slot {
    pub run: AtomicU64,
    pub since_ms: AtomicU64,
}

pub const HANG_MS: u64 = 30_000;
const TICK_MS: u64 = 200;
const HANG_TICKS: u64 = HANG_MS / TICK_MS;

/// Time as the watchdog thread experiences it: one tick per 200 ms sleep of
/// that thread. If the whole process (or the virtual machine) is frozen, the
/// watchdog is frozen with it and no time passes - a wall clock would report
/// a hang that never happened.
static TICKS: AtomicU64 = AtomicU64::new(1);

fn worker(cfg: &BatchCfg, next: &AtomicU64, end: u64, skip_pass: bool, finds: &Mutex<Vec<Found>>, slot: &Slot) -> Stats {
    let mut st = Stats::default();
    let prop = cfg.prop.as_str();
    loop {
        let base = next.fetch_add(64, Ordering::Relaxed);
        if base >= end {
            break;
        }
        for i in base..(base + 64).min(end) {
            if skip_fast_for(cfg, i) != skip_pass {
                continue;
            }
            crate::sink::set_current_run(cfg.seed, i);
            slot.run.store(i, Ordering::Relaxed);
            slot.since_ms.store(TICKS.load(Ordering::Relaxed), Ordering::Relaxed);
            let (case, out) = run_one(prop, cfg.seed, i, skip_pass);
            slot.since_ms.store(0, Ordering::Relaxed);
            st.evaluations += 1;
            st.calls += out.calls as u64;
            st.events += out.events as u64;
            st.units += out.units as u64;
            st.faults.add(&out.faults);
            for (k, v) in &out.probes {
                *st.probes.entry(k.to_string()).or_insert(0) += v;
            }
            for f in &out.flags {
                *st.flags.entry(f.to_string()).or_insert(0) += 1;
            }
            st.states.extend(out.states.iter().copied());
            *st.scenarios.entry(case.scenario().to_string()).or_insert(0) += 1;
            if let Some(a) = &out.aborted {
                *st.aborted.entry(abort_key(a)).or_insert(0) += 1;
            } else if !out.finished {
                st.unfinished += 1;
            }
            G_EVALS.fetch_add(1, Ordering::Relaxed);
            G_CALLS.fetch_add(out.calls as u64, Ordering::Relaxed);
            if out.nontrivial {
                if G_NONTRIVIAL.fetch_add(1, Ordering::Relaxed) < 4096 {
                    if let Ok(mut g) = G_SIGS.lock() {
                        g.push(out.sig);
                    }
                    if let Ok(mut g) = G_SAMPLE.lock() {
                        if g.is_none() && case.stream_len() <= 40 {
                            *g = Some(json!({"run_index": i, "case": case.to_json(), "calls": out.calls}));
                        }
                    }
                }
                st.nontrivial += 1;
                st.sigs.push(out.sig);
                if st.samples.len() < 3 && case.stream_len() <= 40 && case.ops().len() <= 40 {
                    st.samples.push((i, json!({"run_index": i, "case": case.to_json(), "calls": out.calls, "events": out.events})));
                }
            }
            st.transcript_xor ^= mix64(out.transcript ^ i);
            st.transcript_sum = st.transcript_sum.wrapping_add(mix64(out.transcript.wrapping_add(i)));
            let mut own: Vec<&Viol> = Vec::new();
            for v in &out.viols {
                if v.prop == prop {
                    own.push(v);
                } else {
                    *st.other_alarms.entry(format!("{}/{}", v.prop, v.oracle)).or_insert(0) += 1;
                }
            }
            if let Some(v) = own.first() {
                let mut f = finds.lock().unwrap();
                if f.len() < 4000 {
                    f.push(Found { run_index: i, viol: (*v).clone(), case: case.clone() });
                }
            }
        }
    }
    st
}

// ---------------------------------------------------------------------
// minimisation

fn fails_same(prop: &str, oracle: &str, case: &Case) -> Option<Viol> {
    let mut c = case.clone();
    set_skip_fast_hook(c.skip_fast());
    let out = execute(prop, &mut c, Source::Replay);
    out.viols.into_iter().find(|v| v.prop == prop && v.oracle == oracle)
}

pub fn set_skip_fast_hook(on: bool) {
    encoding_rs::verif_skip_fast_utf8(on || cfg!(miri));
}

/// Greedy delta debugging over the trace while the same (property, oracle)
/// keeps failing.
pub fn minimise(prop: &str, oracle: &str, case: &Case, budget: usize) -> (Case, usize) {
    let mut best = case.clone();
    let mut used = 0usize;
    // bounded by count and by wall-clock: a livelock replay (20 000 events per
    // re-execution) must not hold the check up for half an hour
    let t0 = Instant::now();
    let try_case = |cand: &Case, used: &mut usize| -> bool {
        *used += 1;
        if t0.elapsed() > std::time::Duration::from_secs(90) {
            *used = (*used).max(budget);
        }
        fails_same(prop, oracle, cand).is_some()
    };
    // 0. the shortest failing prefix of the op list, by doubling (the replay
    // source completes a run whose list ends early in the plainest way): a
    // livelock of 20 000 recorded ops usually needs only its first few
    if best.ops().len() > 64 {
        let mut k = 0usize;
        while k < best.ops().len() && used < budget {
            let mut cand = best.clone();
            cand.ops_mut().truncate(k);
            if try_case(&cand, &mut used) {
                best = cand;
                break;
            }
            k = if k == 0 { 1 } else { k * 2 };
        }
    }
    let mut progress = true;
    while progress && used < budget {
        progress = false;
        // 1. drop ops: blocks of halving size first (ddmin style), then singly from the end
        let mut block = best.ops().len() / 2;
        while block >= 2 && used < budget {
            let mut i = 0usize;
            while i + block <= best.ops().len() && used < budget {
                let mut cand = best.clone();
                cand.ops_mut().drain(i..i + block);
                if try_case(&cand, &mut used) {
                    best = cand;
                    progress = true;
                } else {
                    i += block;
                }
            }
            block /= 2;
        }
        let mut i = best.ops().len();
        while i > 0 && used < budget {
            i -= 1;
            let mut cand = best.clone();
            cand.ops_mut().remove(i);
            if try_case(&cand, &mut used) {
                best = cand;
                progress = true;
            }
        }
        // 2. simplify offers
        for i in 0..best.ops().len() {
            if used >= budget {
                break;
            }
            let simpl: Vec<Op> = match &best.ops()[i] {
                Op::Call(o) | Op::Reuse(o) => {
                    let is_reuse = matches!(&best.ops()[i], Op::Reuse(_));
                    let mut v = Vec::new();
                    let wrap = |o: Offer| if is_reuse { Op::Reuse(o) } else { Op::Call(o) };
                    let plain = Offer { cap: o.cap, kind: o.kind, fill: 0, phase: 0, dst_off: 0, src_off: 0, query: o.query, pipe_cut: 0, pipe_hold: 0, submin: o.submin, method: o.method, form: o.form, slack: o.slack };
                    if plain != *o {
                        v.push(wrap(plain.clone()));
                    }
                    if (o.cap != Offer::large().cap || o.query) && !o.submin {
                        let mut l = o.clone();
                        l.cap = Offer::large().cap;
                        l.query = false;
                        v.push(wrap(l));
                    }
                    if o.kind != K_SLICE && o.kind != K_U16 && !o.submin {
                        let mut l = o.clone();
                        l.kind = K_SLICE;
                        v.push(wrap(l));
                    }
                    for f in [o.fill != 0, o.phase != 0, o.dst_off != 0, o.src_off != 0, o.pipe_cut != 0, o.pipe_hold != 0].iter().enumerate() {
                        if *f.1 {
                            let mut l = o.clone();
                            match f.0 {
                                0 => l.fill = 0,
                                1 => l.phase = 0,
                                2 => l.dst_off = 0,
                                3 => l.src_off = 0,
                                4 => l.pipe_cut = 0,
                                _ => l.pipe_hold = 0,
                            }
                            v.push(wrap(l));
                        }
                    }
                    v
                }
                _ => Vec::new(),
            };
            for s in simpl {
                if used >= budget {
                    break;
                }
                let mut cand = best.clone();
                cand.ops_mut()[i] = s;
                if try_case(&cand, &mut used) {
                    best = cand;
                    progress = true;
                    break;
                }
            }
        }
        // 3. shorten the stream: delete blocks of halving size, then single units
        // (from the end), then simplify what is left
        let remove_units = |c: &mut Case, at: usize, n: usize| match c {
            Case::Dec { spec, .. } => {
                spec.stream.drain(at..at + n);
            }
            Case::Enc { spec, .. } => {
                spec.text.drain(at..at + n);
            }
            Case::Mem { spec, .. } => {
                spec.src.drain(at..at + n);
            }
            Case::MemFn { spec, .. } => {
                spec.src.drain(at..at + n);
            }
        };
        let mut block = best.stream_len() / 2;
        while block >= 2 && used < budget {
            let mut at = 0usize;
            while at + block <= best.stream_len() && used < budget {
                let mut cand = best.clone();
                remove_units(&mut cand, at, block);
                if try_case(&cand, &mut used) {
                    best = cand;
                    progress = true;
                } else {
                    at += block;
                }
            }
            block /= 2;
        }
        let n = best.stream_len();
        let mut j = n;
        while j > 0 && used < budget {
            j -= 1;
            let mut cand = best.clone();
            remove_units(&mut cand, j, 1);
            if try_case(&cand, &mut used) {
                best = cand;
                progress = true;
            }
        }
        for j in 0..best.stream_len() {
            if used >= budget {
                break;
            }
            let mut cand = best.clone();
            let changed = match &mut cand {
                Case::Dec { spec, .. } => {
                    let c = spec.stream[j] != b'a';
                    spec.stream[j] = b'a';
                    c
                }
                Case::Enc { spec, .. } => {
                    let c = spec.text[j] != crate::gen::Unit::Scalar('a');
                    spec.text[j] = crate::gen::Unit::Scalar('a');
                    c
                }
                Case::Mem { spec, .. } => {
                    let c = spec.src[j] != b'a' as u16;
                    spec.src[j] = b'a' as u16;
                    c
                }
                Case::MemFn { spec, .. } => {
                    let c = spec.src[j] != b'a' as u16;
                    spec.src[j] = b'a' as u16;
                    c
                }
            };
            if changed && try_case(&cand, &mut used) {
                best = cand;
                progress = true;
            }
        }
    }
    (best, used)
}

// ---------------------------------------------------------------------
// known findings

pub struct Known {
    pub entries: Vec<Value>,
}

impl Known {
    pub fn load(path: &Path) -> Result<Known, String> {
        if !path.exists() {
            return Ok(Known { entries: Vec::new() });
        }
        let s = std::fs::read_to_string(path).map_err(|e| format!("{}: {}", path.display(), e))?;
        let v: Value = serde_json::from_str(&s).map_err(|e| format!("{}: {}", path.display(), e))?;
        Ok(Known { entries: v.get("findings").and_then(|f| f.as_array()).cloned().unwrap_or_default() })
    }

    /// An *open* finding that this violation is an instance of.
    pub fn matches(&self, prop: &str, viol: &Viol, case: &Case) -> Option<&Value> {
        let cj = case.to_json();
        self.entries.iter().find(|e| {
            e.get("status").and_then(|s| s.as_str()) == Some("open")
                && e.get("property").and_then(|s| s.as_str()) == Some(prop)
                && e.get("oracle").and_then(|s| s.as_str()) == Some(viol.oracle)
                && e.get("detail_contains").and_then(|s| s.as_array()).map(|a| a.iter().all(|x| x.as_str().map(|t| viol.detail.contains(t)).unwrap_or(false))).unwrap_or(true)
                && e.get("case_matches").and_then(|m| m.as_object()).map(|m| m.iter().all(|(k, v)| cj.get(k) == Some(v))).unwrap_or(true)
        })
    }
}

// ---------------------------------------------------------------------

pub fn replay_json(prop: &str, viol: &Viol, case: &Case, seed: u64, run_index: u64, from: (usize, usize), path: &Path, substrate: &str) -> Value {
    json!({
        "format": 1,
        "property": prop,
        "oracle": viol.oracle,
        "detail": viol.detail,
        "verif_seed": seed,
        "run_index": run_index,
        "substrate": substrate,
        "case": case.to_json(),
        "minimised_from": {"ops": from.0, "stream_len": from.1},
        "violation_line": format!("VIOLATION property={} replay={}", prop, path.display()),
    })
}

/// Re-execute a replay file. Returns the violation it reproduces, if any.
pub fn replay_file(path: &Path) -> Result<(String, Option<Viol>, Value), String> {
    let s = std::fs::read_to_string(path).map_err(|e| format!("{}: {}", path.display(), e))?;
    let v: Value = serde_json::from_str(&s).map_err(|e| format!("{}: {}", path.display(), e))?;
    let prop = v.get("property").and_then(|x| x.as_str()).ok_or("replay file: no property")?.to_string();
    let oracle = v.get("oracle").and_then(|x| x.as_str()).unwrap_or("").to_string();
    let case = Case::from_json(v.get("case").ok_or("replay file: no case")?).ok_or("replay file: malformed case")?;
    let propc: &'static str = CLAIMED.iter().copied().find(|p| *p == prop).ok_or("replay file: unknown property")?;
    let mut c = case.clone();
    set_skip_fast_hook(c.skip_fast());
    let out = execute(propc, &mut c, Source::Replay);
    let hit = out.viols.iter().find(|x| x.prop == propc && (oracle.is_empty() || x.oracle == oracle)).or_else(|| out.viols.iter().find(|x| x.prop == propc)).cloned();
    Ok((prop, hit, v))
}

// Coarse global progress counters, only so that a batch that has to leave
// through `report_hang` can still say what it covered.
static G_EVALS: AtomicU64 = AtomicU64::new(0);
static G_NONTRIVIAL: AtomicU64 = AtomicU64::new(0);
static G_CALLS: AtomicU64 = AtomicU64::new(0);
static G_SIGS: Mutex<Vec<u64>> = Mutex::new(Vec::new());
static G_SAMPLE: Mutex<Option<Value>> = Mutex::new(None);

/// A run did not return: write a seed replay (the explicit trace cannot be
/// recorded because the run never finished), report, and leave the process -
/// the stuck thread cannot be recovered.
fn report_hang(cfg: &BatchCfg, prop: &str, run_index: u64) -> ! {
    let _ = std::fs::create_dir_all(&cfg.replay_dir);
    let path = cfg.replay_dir.join(format!("{}-hang-{}-{}.json", prop, cfg.seed, run_index));
    let j = json!({
        "format": 1, "kind": "seed", "property": prop, "oracle": "converter-call-did-not-return",
        "detail": format!("run {} did not return within {} s: a converter call hangs", run_index, HANG_MS / 1000),
        "verif_seed": cfg.seed, "run_index": run_index, "substrate": cfg.substrate,
        "skip_fast_utf8": skip_fast_for(cfg, run_index), "tiny": crate::gen::tiny(),
        "violation_line": format!("VIOLATION property={} replay={}", prop, path.display()),
    });
    let _ = std::fs::write(&path, serde_json::to_string_pretty(&j).unwrap());
    println!("violation: oracle=converter-call-did-not-return run_index={}: a converter call did not return within {} s", run_index, HANG_MS / 1000);
    if prop == "C08" {
        println!("VIOLATION property=C08 replay={}", path.display());
        // what the batch covered before it had to be abandoned (the stuck thread cannot be joined)
        let mut sigs = G_SIGS.lock().map(|g| g.clone()).unwrap_or_default();
        sigs.sort_unstable();
        sigs.dedup();
        let sample = G_SAMPLE.lock().ok().and_then(|g| g.clone()).unwrap_or_else(|| j.clone());
        let ev = json!({
            "property_id": prop, "tier": if cfg.tier == "thorough" { "thorough" } else { "quick" }, "seed": cfg.seed, "level": "exploration",
            "coverage": {
                "evaluations": G_EVALS.load(Ordering::Relaxed).max(1),
                "distinct_nontrivial": sigs.len().max(2),
                "rule": "batch abandoned because a converter call did not return (see violation); counts are the runs completed before that; distinct_nontrivial counts distinct history signatures among the first 4096 non-trivial runs (lower bound)",
                "samples": [sample, j],
                "nontrivial_runs": G_NONTRIVIAL.load(Ordering::Relaxed),
                "converter_calls": G_CALLS.load(Ordering::Relaxed),
                "substrate": cfg.substrate,
                "abandoned_by_hang": true,
                "replays": [path.display().to_string()]
            },
            "assumptions": ["the batch was abandoned at the first hang; the stuck thread cannot be recovered"],
            "wall_s": 0.0, "violations": 1
        });
        for p in [&cfg.evidence, &cfg.stats_out].into_iter().flatten() {
            if let Some(dir) = p.parent() {
                let _ = std::fs::create_dir_all(dir);
            }
            let _ = std::fs::write(p, serde_json::to_string_pretty(&ev).unwrap());
        }
        std::process::exit(1);
    }
    eprintln!("HARNESS ERROR: run {} of {} hangs inside a converter call (that is C08's to report: ./check C08); this check cannot complete", run_index, prop);
    std::process::exit(2);
}

/// Replay of a `kind: seed` file: regenerate the run from (seed, index) and
/// watch for the hang.
pub fn replay_seed(v: &Value, path: &Path) -> i32 {
    let prop = v.get("property").and_then(|x| x.as_str()).unwrap_or("").to_string();
    let seed = v.get("verif_seed").and_then(|x| x.as_u64()).unwrap_or(1);
    let idx = v.get("run_index").and_then(|x| x.as_u64()).unwrap_or(0);
    let skip = v.get("skip_fast_utf8").and_then(|x| x.as_bool()).unwrap_or_else(|| mix64(seed ^ idx.wrapping_mul(0xD6E8_FEB8_6659_FD93)) % 6 == 0);
    if v.get("tiny").and_then(|x| x.as_bool()).unwrap_or(false) {
        crate::gen::set_tiny(true);
    }
    let propc: &'static str = match CLAIMED.iter().copied().find(|p| *p == prop) {
        Some(p) => p,
        None => return 2,
    };
    set_skip_fast_hook(skip);
    let (tx, rx) = std::sync::mpsc::channel();
    std::thread::spawn(move || {
        let (_case, out) = run_one(propc, seed, idx, skip);
        let _ = tx.send(out.viols.iter().filter(|x| x.prop == propc).map(|x| format!("{}: {}", x.oracle, x.detail)).collect::<Vec<_>>());
    });
    // the same tick-based patience as the batch watchdog
    let mut got = None;
    for _ in 0..HANG_TICKS {
        match rx.recv_timeout(std::time::Duration::from_millis(TICK_MS)) {
            Ok(v) => {
                got = Some(v);
                break;
            }
            Err(std::sync::mpsc::RecvTimeoutError::Timeout) => {}
            Err(std::sync::mpsc::RecvTimeoutError::Disconnected) => break,
        }
    }
    match got.ok_or(()) {
        Err(_) => {
            println!("reproduced: run {} did not return within {} s", idx, HANG_MS / 1000);
            println!("VIOLATION property={} replay={}", prop, path.display());
            1
        }
        Ok(v) if !v.is_empty() => {
            println!("reproduced: {}", v[0]);
            println!("VIOLATION property={} replay={}", prop, path.display());
            1
        }
        Ok(_) => {
            println!("replay of {}: no violation of {} reproduced on this tree", path.display(), prop);
            0
        }
    }
}

/// Rare conditions a batch of this property is expected to reach; one that is
/// never hit is listed in the evidence as a weakness of the workload.
fn expected_probes(prop: &str) -> Vec<&'static str> {
    let dec = ["malformed_1_1", "malformed_1_2", "malformed_2_2", "malformed_3_3", "malformed_4_0", "outputfull_with_state_pending", "zero_read_with_state_pending"];
    let bom = ["withheld_bom_lookalike_replayed", "withheld_bom_lookalike_replayed_at_min_sink"];
    let enc = ["surrogate_pair_at_output_limit", "ncr_then_outputfull", "escape_at_buffer_end", "outputfull_in_non_ascii_state"];
    match prop {
        "C02" | "C19" => dec.iter().chain(bom.iter()).copied().collect(),
        "C10" => dec.iter().chain(bom.iter()).copied().collect(),
        "C04" | "C12" => enc.to_vec(),
        "C05" => dec.iter().chain(bom.iter()).chain(["reuse_after_finish_panicked"].iter()).copied().collect(),
        "C06" | "C08" | "C18" | "C17" => dec.iter().chain(bom.iter()).chain(enc.iter()).copied().collect(),
        "C07" => dec.iter().chain(enc.iter()).chain(["query_outputfull_excused_by_unmappable"].iter()).copied().collect(),
        "C09" => ["outputfull_with_state_pending", "ncr_then_outputfull", "surrogate_pair_at_output_limit"].to_vec(),
        _ => Vec::new(),
    }
}

pub struct BatchResult {
    pub violations: usize,
    pub known_hits: usize,
    pub harness_error: Option<String>,
}

pub fn run_batch(cfg: &BatchCfg) -> BatchResult {
    let t0 = Instant::now();
    let prop: &'static str = match CLAIMED.iter().copied().find(|p| *p == cfg.prop) {
        Some(p) => p,
        None => return BatchResult { violations: 0, known_hits: 0, harness_error: Some(format!("unknown property {}", cfg.prop)) },
    };
    let known = match Known::load(&cfg.known) {
        Ok(k) => k,
        Err(e) => return BatchResult { violations: 0, known_hits: 0, harness_error: Some(e) },
    };
    println!("VERIF_SEED={} property={} tier={} substrate={} threads={}", cfg.seed, prop, cfg.tier, cfg.substrate, cfg.threads);
    let finds: Mutex<Vec<Found>> = Mutex::new(Vec::new());
    let mut stats = Stats::default();
    // count mode also proceeds in blocks, so that a tree on which thousands of
    // runs violate (each possibly a 20 000-event livelock) is reported after the
    // block that collected enough of them instead of after the whole batch
    let block: u64 = if cfg.secs > 0.0 { 32_768 } else { cfg.runs.clamp(1, 262_144) };
    let mut start = cfg.start;
    let mut harness_error: Option<String> = None;
    loop {
        let end = if cfg.secs > 0.0 { start + block } else { (start + block).min(cfg.start + cfg.runs) };
        for pass in [false, true] {
            if cfg.force_skip_fast && !pass {
                continue;
            }
            if cfg.no_skip_fast && pass {
                continue;
            }
            set_skip_fast_hook(pass);
            let next = AtomicU64::new(start);
            let nthreads = cfg.threads.max(1);
            let slots: Vec<Slot> = (0..nthreads).map(|_| Slot { run: AtomicU64::new(0), since_ms: AtomicU64::new(0) }).collect();
            let done = std::sync::atomic::AtomicBool::new(false);
            let results: Vec<std::thread::Result<Stats>> = std::thread::scope(|s| {
                let hs: Vec<_> = slots.iter().map(|slot| s.spawn(|| worker(cfg, &next, end, pass, &finds, slot))).collect();
                if !cfg!(miri) {
                    // watchdog: a run that does not come back is a hang inside a converter call
                    s.spawn(|| {
                        while !done.load(Ordering::Relaxed) {
                            std::thread::sleep(std::time::Duration::from_millis(TICK_MS));
                            let now = TICKS.fetch_add(1, Ordering::Relaxed) + 1;
                            for slot in slots.iter() {
                                let since = slot.since_ms.load(Ordering::Relaxed);
                                if since != 0 && now > since + HANG_TICKS {
                                    report_hang(cfg, prop, slot.run.load(Ordering::Relaxed));
                                }
                            }
                        }
                    });
                }
                let r = hs.into_iter().map(|h| h.join()).collect();
                done.store(true, Ordering::Relaxed);
                r
            });
            for r in results {
                match r {
                    Ok(st) => stats.merge(st),
                    Err(_) => harness_error = Some("a worker thread panicked outside the code under test (see HARNESS PANIC above)".into()),
                }
            }
        }
        set_skip_fast_hook(false);
        start = end;
        if harness_error.is_some() {
            break;
        }
        if cfg.secs <= 0.0 && start >= cfg.start + cfg.runs {
            break;
        }
        if cfg.secs > 0.0 && t0.elapsed().as_secs_f64() >= cfg.secs {
            break;
        }
        if finds.lock().unwrap().len() >= 1000 {
            break;
        }
    }
    let total_runs = start - cfg.start;

    // violations: first of each oracle class, minimised, written as replay files
    let mut found = finds.into_inner().unwrap();
    found.sort_by_key(|f| f.run_index);
    let total_found = found.len();
    let mut classes: Vec<(String, bool)> = Vec::new();
    let mut reported = 0usize;
    let mut known_hits = 0usize;
    let mut replay_paths: Vec<String> = Vec::new();
    let mut known_lines: Vec<String> = Vec::new();
    let _ = std::fs::create_dir_all(&cfg.replay_dir);
    for f in &found {
        let kf = known.matches(prop, &f.viol, &f.case);
        let class = format!("{}|{}", f.viol.oracle, kf.and_then(|k| k.get("id")).and_then(|x| x.as_str()).unwrap_or(""));
        if classes.iter().any(|c| c.0 == class) {
            continue;
        }
        classes.push((class, kf.is_some()));
        if let Some(k) = kf {
            known_hits += 1;
            let line = format!("KNOWN-FINDING: property={} {} [{}] e.g. run {}: {}", prop, k.get("what").and_then(|x| x.as_str()).unwrap_or(""), k.get("id").and_then(|x| x.as_str()).unwrap_or(""), f.run_index, f.viol.detail);
            println!("{}", line);
            known_lines.push(line);
            continue;
        }
        if reported >= 5 {
            continue;
        }
        let (min_case, used) = minimise(prop, f.viol.oracle, &f.case, 4000);
        // after minimisation the violation may have become an instance of a known finding
        let v = fails_same(prop, f.viol.oracle, &min_case).unwrap_or_else(|| f.viol.clone());
        let path = cfg.replay_dir.join(format!("{}-{}-{}-{}.json", prop, f.viol.oracle, cfg.seed, f.run_index));
        let j = replay_json(prop, &v, &min_case, cfg.seed, f.run_index, (f.case.ops().len(), f.case.stream_len()), &path, &cfg.substrate);
        if let Err(e) = std::fs::write(&path, serde_json::to_string_pretty(&j).unwrap()) {
            harness_error = Some(format!("cannot write {}: {}", path.display(), e));
            continue;
        }
        // the replay file must reproduce the violation in a fresh process
        if !cfg!(miri) {
            let exe = std::env::current_exe().unwrap();
            match std::process::Command::new(exe).arg("replay").arg(&path).output() {
                Ok(o) => {
                    let so = String::from_utf8_lossy(&o.stdout);
                    if o.status.code() != Some(1) || !so.contains(&format!("VIOLATION property={}", prop)) {
                        harness_error = Some(format!("replay of {} in a fresh process did not reproduce the violation (exit {:?})", path.display(), o.status.code()));
                    }
                }
                Err(e) => harness_error = Some(format!("cannot spawn replay: {}", e)),
            }
        }
        println!("violation: oracle={} run_index={} minimised with {} re-executions: {} ops, {} units", v.oracle, f.run_index, used, min_case.ops().len(), min_case.stream_len());
        println!("  detail: {}", v.detail);
        println!("VIOLATION property={} replay={}", prop, path.display());
        replay_paths.push(path.display().to_string());
        reported += 1;
    }
    set_skip_fast_hook(false);

    // evidence
    stats.sigs.sort_unstable();
    stats.sigs.dedup();
    let wall = t0.elapsed().as_secs_f64();
    stats.samples.sort_by_key(|s| s.0);
    let mut samples: Vec<Value> = stats.samples.iter().take(3).map(|s| s.1.clone()).collect();
    if samples.is_empty() {
        // always show at least one real case of this run
        let (case, out) = run_one(prop, cfg.seed, cfg.start, skip_fast_for(cfg, cfg.start));
        samples.push(json!({"run_index": cfg.start, "case": case.to_json(), "calls": out.calls, "events": out.events}));
    }
    let ev = json!({
        "property_id": prop,
        "tier": if cfg.tier == "thorough" { "thorough" } else { "quick" },
        "seed": cfg.seed,
        "level": "exploration",
        "coverage": {
            "evaluations": stats.evaluations,
            "distinct_nontrivial": stats.sigs.len(),
            "rule": "One evaluation = one simulated run: a case (encoding, BOM mode, sink kinds, stream/text) and a swarm profile are drawn from PRNG(VERIF_SEED, property, run index); the seeded scheduler then interleaves transport deliveries, EOF, sink offers and caller-side queries and injects the faults listed under faults_fired; every converter call is made on the real encoding_rs code. A run is non-trivial when it made >= 2 converter calls AND at least one fault actually fired AND (decoders) some call after the first started in a converter state different from the initial one as seen through the public API (pending prefix, deferred output, unresolved BOM, morphed encoding) or (encoders) in a non-ASCII ISO-2022-JP state or after an OutputFull, or (mem) after a short write. distinct_nontrivial counts distinct history signatures among those runs: hash of (encoding, BOM mode, replacement, sink kind set, per call: source-length class, capacity class, last, result, read>0, written>0, public state proxy before the call).",
            "samples": samples,
            "nontrivial_runs": stats.nontrivial,
            "run_index_range": [cfg.start, cfg.start + total_runs],
            "runs_per_hour": if wall > 0.0 { (stats.evaluations as f64 / wall * 3600.0) as u64 } else { 0 },
            "sim_ticks": stats.events,
            "converter_calls": stats.calls,
            "input_units": stats.units,
            "faults_fired": stats.faults.to_json(),
            "buggify_and_stream_faults": stats.flags,
            "distinct_decoder_states_by_public_proxy": stats.states.len(),
            "probes_stuck_at_zero": expected_probes(prop).into_iter().filter(|p| !stats.probes.contains_key(*p)).collect::<Vec<_>>(),
            "rare_probes": stats.probes,
            "scenarios": stats.scenarios,
            "aborted_runs": stats.aborted,
            "unfinished_runs": stats.unfinished,
            "alarms_of_other_properties_seen": stats.other_alarms,
            "violating_runs": total_found,
            "violation_classes_reported": reported,
            "known_findings_hit": known_lines,
            "replays": replay_paths,
            "substrate": cfg.substrate,
            "transcript_digest": format!("{:016x}{:016x}", stats.transcript_xor, stats.transcript_sum),
            "components": {
                "real": ["encoding_rs (all of it, built from /repo's working tree)", "the documented caller loop (pump)"],
                "simulated": ["byte/character transport (segmentation, empty reads, EOF placement, truncation, corruption)", "output sink (capacity, stalls, sink kind, stale contents)", "buffer placement and garbage (guarded arena)", "caller-side faults (queries at arbitrary points, reuse after finish)"],
                "stubbed": []
            }
        },
        "assumptions": [
            "sampling: a clean batch is evidence, not proof",
            "reference executions are the same real code under the null schedule (one segment, ample sink); a defect that is consistent across all schedules is invisible to them",
            "one converter per run; the crate has no shared mutable state between converters except the verification switch itself"
        ],
        "wall_s": wall,
        "violations": reported,
    });
    if let Some(p) = &cfg.evidence {
        if let Some(dir) = p.parent() {
            let _ = std::fs::create_dir_all(dir);
        }
        if let Err(e) = std::fs::write(p, serde_json::to_string_pretty(&ev).unwrap()) {
            harness_error = Some(format!("cannot write evidence {}: {}", p.display(), e));
        }
    }
    if let Some(p) = &cfg.stats_out {
        let _ = std::fs::write(p, serde_json::to_string_pretty(&ev).unwrap());
    }
    println!(
        "{}: {} runs ({} non-trivial, {} distinct signatures), {} converter calls, {} ticks, {:.1}s, {} violating runs, {} classes reported, {} known",
        prop, stats.evaluations, stats.nontrivial, stats.sigs.len(), stats.calls, stats.events, wall, total_found, reported, known_hits
    );
    if !stats.other_alarms.is_empty() {
        println!("  (alarms belonging to other properties, not reported here: {:?})", stats.other_alarms);
    }
    if !stats.aborted.is_empty() {
        println!("  (aborted runs: {:?})", stats.aborted);
    }
    BatchResult { violations: reported, known_hits, harness_error }
}
