//! Per-property scenarios: how a case is generated from the run's PRNG, which
//! driver mode executes it, and which history oracles decide the property.

use crate::dec::*;
use crate::enc::*;
use crate::encs::{family, Family};
use crate::gen::*;
use crate::memsink::*;
use crate::ops::*;
use crate::rng::Rng;
use encoding_rs::*;
use serde_json::{json, Value};

pub const CLAIMED: [&str; 12] = ["C02", "C04", "C05", "C06", "C07", "C08", "C09", "C10", "C12", "C17", "C18", "C19"];

/// The encoders whose tables differ between build configurations.
pub const CJK7: [&Encoding; 7] = [BIG5, EUC_JP, EUC_KR, GBK, GB18030, ISO_2022_JP, SHIFT_JIS];
pub const SWEEP11: [&Encoding; 11] = [BIG5, EUC_JP, EUC_KR, GBK, GB18030, ISO_2022_JP, SHIFT_JIS, WINDOWS_1252, UTF_8, X_USER_DEFINED, KOI8_U];
pub const SWEEP_BLOCKS: u64 = (0x110000 + 47) / 48;

#[derive(Clone, Debug)]
pub enum Case {
    Dec { spec: DecSpec, ops: Vec<Op>, strategy: String },
    Enc { spec: EncSpec, ops: Vec<Op> },
    Mem { spec: MemSpec, ops: Vec<Op> },
    /// one call of a pure mem / validator function on guarded memory (C06 only)
    MemFn { spec: crate::memfn::MemFnSpec, ops: Vec<Op> },
}

impl Case {
    pub fn ops(&self) -> &Vec<Op> {
        match self {
            Case::Dec { ops, .. } | Case::Enc { ops, .. } | Case::Mem { ops, .. } | Case::MemFn { ops, .. } => ops,
        }
    }
    pub fn ops_mut(&mut self) -> &mut Vec<Op> {
        match self {
            Case::Dec { ops, .. } | Case::Enc { ops, .. } | Case::Mem { ops, .. } | Case::MemFn { ops, .. } => ops,
        }
    }
    pub fn stream_len(&self) -> usize {
        match self {
            Case::Dec { spec, .. } => spec.stream.len(),
            Case::Enc { spec, .. } => spec.text.len(),
            Case::Mem { spec, .. } => spec.src.len(),
            Case::MemFn { spec, .. } => spec.src.len(),
        }
    }
    pub fn skip_fast(&self) -> bool {
        match self {
            Case::Dec { spec, .. } => spec.skip_fast,
            _ => false,
        }
    }
    pub fn scenario(&self) -> &'static str {
        match self {
            Case::Dec { .. } => "DEC",
            Case::Enc { .. } => "ENC",
            Case::Mem { .. } => "MEMSINK",
            Case::MemFn { .. } => "MEMFN",
        }
    }

    pub fn to_json(&self) -> Value {
        match self {
            Case::Dec { spec, ops, strategy } => json!({
                "scenario": "DEC", "encoding": spec.enc.name(), "bom": spec.bom.name(), "replacement": spec.repl,
                "form": if spec.form16 { "utf16" } else { "utf8" }, "skip_fast_utf8": spec.skip_fast,
                "stream_hex": hex(&spec.stream), "strategy": strategy, "ops": ops_to_json(ops)
            }),
            Case::Enc { spec, ops } => json!({
                "scenario": "ENC", "encoding": spec.enc.name(), "replacement": spec.repl,
                "source_form": if spec.form16 { "utf16" } else { "utf8" },
                "text": spec.text.iter().map(|u| match *u { Unit::Scalar(c) => json!(c as u32), Unit::Lone(s) => json!({"lone": s}) }).collect::<Vec<_>>(),
                "ops": ops_to_json(ops)
            }),
            Case::Mem { spec, ops } => json!({
                "scenario": "MEMSINK", "function": spec.func.name(), "src_units": spec.src, "ops": ops_to_json(ops)
            }),
            Case::MemFn { spec, ops } => json!({
                "scenario": "MEMFN", "function": spec.func, "src_units": spec.src, "src_off": spec.src_off,
                "dst_off": spec.dst_off, "slack": spec.slack, "ops": ops_to_json(ops)
            }),
        }
    }

    pub fn from_json(v: &Value) -> Option<Case> {
        let ops = ops_from_json(v.get("ops")?)?;
        match v.get("scenario")?.as_str()? {
            "DEC" => Some(Case::Dec {
                spec: DecSpec {
                    enc: crate::encs::by_name(v.get("encoding")?.as_str()?)?,
                    bom: Bom::from_name(v.get("bom")?.as_str()?)?,
                    repl: v.get("replacement")?.as_bool()?,
                    form16: v.get("form")?.as_str()? == "utf16",
                    stream: unhex(v.get("stream_hex")?.as_str()?)?,
                    skip_fast: v.get("skip_fast_utf8").and_then(|x| x.as_bool()).unwrap_or(false),
                },
                ops,
                strategy: v.get("strategy").and_then(|x| x.as_str()).unwrap_or("").to_string(),
            }),
            "ENC" => {
                let mut text = Vec::new();
                for t in v.get("text")?.as_array()? {
                    if let Some(n) = t.as_u64() {
                        text.push(Unit::Scalar(char::from_u32(n as u32)?));
                    } else {
                        text.push(Unit::Lone(t.get("lone")?.as_u64()? as u16));
                    }
                }
                Some(Case::Enc {
                    spec: EncSpec {
                        enc: crate::encs::by_name(v.get("encoding")?.as_str()?)?,
                        repl: v.get("replacement")?.as_bool()?,
                        form16: v.get("source_form")?.as_str()? == "utf16",
                        text,
                    },
                    ops,
                })
            }
            "MEMSINK" => Some(Case::Mem {
                spec: MemSpec {
                    func: MemFn::from_name(v.get("function")?.as_str()?)?,
                    src: v.get("src_units")?.as_array()?.iter().map(|x| x.as_u64().unwrap_or(0) as u16).collect(),
                },
                ops,
            }),
            "MEMFN" => Some(Case::MemFn {
                spec: crate::memfn::MemFnSpec {
                    func: v.get("function")?.as_str()?.to_string(),
                    src: v.get("src_units")?.as_array()?.iter().map(|x| x.as_u64().unwrap_or(0) as u16).collect(),
                    src_off: v.get("src_off").and_then(|x| x.as_u64()).unwrap_or(0) as u8,
                    dst_off: v.get("dst_off").and_then(|x| x.as_u64()).unwrap_or(0) as u8,
                    slack: v.get("slack").and_then(|x| x.as_u64()).unwrap_or(0) as u8,
                },
                ops,
            }),
            _ => None,
        }
    }
}

pub fn hex(b: &[u8]) -> String {
    b.iter().map(|x| format!("{:02x}", x)).collect::<Vec<_>>().join(" ")
}

pub fn unhex(s: &str) -> Option<Vec<u8>> {
    s.split_whitespace().map(|t| u8::from_str_radix(t, 16).ok()).collect()
}

/// What one simulated run produced, in the shape the batch layer needs.
pub struct RunOut {
    pub viols: Vec<Viol>,
    pub calls: usize,
    pub events: usize,
    pub units: usize,
    pub faults: Faults,
    pub probes: Vec<(&'static str, u64)>,
    pub sig: u64,
    pub transcript: u64,
    pub nontrivial: bool,
    pub aborted: Option<String>,
    pub finished: bool,
    pub flags: Vec<&'static str>,
    /// public-API state proxies seen before calls (decoders)
    pub states: Vec<u64>,
}

pub enum Source<'a> {
    Prng(&'a mut Rng, Profile),
    Replay,
}

// ---------------------------------------------------------------------
// generation

pub fn scenario_id(prop: &str) -> u64 {
    prop.bytes().fold(0u64, |a, b| a.wrapping_mul(131).wrapping_add(b as u64))
}

fn draw_dec_spec(rng: &mut Rng, prop: &str, skip_fast: bool, run_index: u64) -> (DecSpec, DecStream) {
    // every fourth decoder run takes its stream from the systematic
    // enumeration of short token sequences (the schedule stays random)
    if !crate::gen::tiny() && run_index % 4 == 1 && prop != "C10" {
        let k = run_index / 4;
        let enc = crate::encs::STATEFUL[(k % crate::encs::STATEFUL.len() as u64) as usize];
        let bytes = enumerated_stream(enc, k / crate::encs::STATEFUL.len() as u64);
        let bom = rng.pick(&[Bom::Sniff, Bom::Remove, Bom::Off, Bom::Off]);
        let repl = if prop == "C09" { true } else { rng.chance(2, 3) };
        let form16 = rng.chance(2, 5);
        let st = DecStream { bytes: bytes.clone(), strategy: "enumerated-tokens", corrupt: false, truncate: false, bom_prefix: false };
        return (DecSpec { enc, bom, repl, form16, stream: bytes, skip_fast }, st);
    }
    // systematic two-byte sweep (C17: every eighth run, C02: every sixteenth):
    // run k pushes all 256 pairs (lead, trail), each followed by 'a', through
    // decoder k mod 40 with lead = (k / 40) mod 256 - one cycle of 10 240 sweep
    // runs passes every two-byte string through every decoder inside a history
    let pair_every = match prop {
        "C17" => 8,
        "C02" => 16,
        _ => 0,
    };
    if !crate::gen::tiny() && pair_every != 0 && run_index % pair_every == 3 {
        let k = run_index / pair_every;
        let enc = crate::encs::ALL[(k % 40) as usize];
        let lead = ((k / 40) % 256) as u8;
        let mut bytes = Vec::with_capacity(768);
        for trail in 0..=255u8 {
            bytes.extend_from_slice(&[lead, trail, b'a']);
        }
        let st = DecStream { bytes: bytes.clone(), strategy: "two-byte-sweep", corrupt: false, truncate: false, bom_prefix: false };
        let repl = rng.chance(1, 2);
        let form16 = rng.chance(1, 2);
        return (DecSpec { enc, bom: Bom::Off, repl, form16, stream: bytes, skip_fast }, st);
    }
    // C07: now and then a long stream whose BOM (or withheld look-alike) makes
    // the sniffing decoder produce far more than its nominal encoding's own
    // worst case, delivered whole into a String of exactly the queried size
    if prop == "C07" && !crate::gen::tiny() && run_index % 64 == 7 {
        let enc = rng.pick(&[REPLACEMENT, UTF_16LE, UTF_16BE, WINDOWS_1252, WINDOWS_874, X_USER_DEFINED, ISO_2022_JP, BIG5]);
        let n = rng.range(1400, 2400);
        let mut bytes: Vec<u8> = Vec::new();
        match rng.below(4) {
            0 => {
                bytes.extend_from_slice(&[0xEF, 0xBB, 0xBF]);
                let t: String = (0..n).map(|_| rng.pick(&['\u{4E00}', '\u{3042}', 'a', '\u{20AC}', '\u{1F4A9}', '\u{E9}'])).collect();
                bytes.extend_from_slice(t.as_bytes());
            }
            1 => {
                let le = rng.chance(1, 2);
                bytes.extend_from_slice(if le { &[0xFF, 0xFE] } else { &[0xFE, 0xFF] });
                for _ in 0..n {
                    let u: u16 = rng.pick(&[0x4E00u16, 0x3042, 0x61, 0x20AC, 0xE9, 0xFFFD]);
                    if le {
                        bytes.extend_from_slice(&u.to_le_bytes());
                    } else {
                        bytes.extend_from_slice(&u.to_be_bytes());
                    }
                }
            }
            _ => {
                // withheld look-alike in front of bytes that all expand threefold
                bytes.extend_from_slice(rng.pick(&[&[0xEFu8][..], &[0xEF, 0xBB][..], &[0xFE][..], &[0xFF][..]]));
                for _ in 0..n {
                    bytes.push(rng.range(0xA1, 0xDA) as u8);
                }
            }
        }
        let st = DecStream { bytes: bytes.clone(), strategy: "long-morph", corrupt: false, truncate: false, bom_prefix: true };
        let form16 = rng.chance(1, 4);
        return (DecSpec { enc, bom: Bom::Sniff, repl: rng.chance(1, 2), form16, stream: bytes, skip_fast }, st);
    }
    let enc = crate::encs::pick(rng);
    let bom = match prop {
        "C10" => rng.pick(&[Bom::Sniff, Bom::Sniff, Bom::Remove, Bom::Off]),
        "C19" => rng.pick(&[Bom::Sniff, Bom::Remove, Bom::Off, Bom::Off]),
        _ => rng.pick(&[Bom::Sniff, Bom::Remove, Bom::Off]),
    };
    let long = rng.chance(3, 20);
    let st = gen_dec_stream(rng, enc, long, prop == "C10");
    let repl = match prop {
        "C09" => true,
        _ => rng.chance(1, 2),
    };
    let form16 = rng.chance(2, 5);
    (DecSpec { enc, bom, repl, form16, stream: st.bytes.clone(), skip_fast }, st)
}

/// Systematic sweep: run `k` pushes block `k / encoders` of 48 consecutive
/// scalar values through encoder `k % encoders`, each value with PRNG-chosen
/// ASCII / non-ASCII neighbours, so that a full cycle passes every scalar
/// value through every listed encoder inside some history.
fn sweep_enc_spec(rng: &mut Rng, encoders: &[&'static Encoding], k: u64, prop: &str) -> EncSpec {
    let enc = encoders[(k % encoders.len() as u64) as usize];
    let block = (k / encoders.len() as u64) % SWEEP_BLOCKS;
    let form16 = (k / (encoders.len() as u64 * SWEEP_BLOCKS)) % 2 == 1;
    let mut text = Vec::new();
    for j in 0..48u32 {
        let v = block as u32 * 48 + j;
        if v > 0x10FFFF || (0xD800..0xE000).contains(&v) {
            continue;
        }
        match rng.below(4) {
            0 => text.push(Unit::Scalar('a')),
            // (U+00A5 / U+203E put the ISO-2022-JP encoder into its Roman state)
            1 => text.push(Unit::Scalar(rng.pick(&['\u{3042}', '\u{4E00}', '\u{AC00}', '\u{E9}', '\u{FF71}', '\u{A5}', '\u{203E}']))),
            _ => {}
        }
        text.push(Unit::Scalar(char::from_u32(v).unwrap()));
    }
    let repl = if prop == "C09" { true } else { rng.chance(1, 2) };
    EncSpec { enc, repl, form16, text }
}

fn draw_enc_spec(rng: &mut Rng, prop: &str) -> EncSpec {
    let enc = if prop == "C17" { rng.pick(&CJK7) } else if rng.chance(1, 8) { crate::encs::ALL[rng.below(40)] } else { rng.pick(&[BIG5, EUC_JP, EUC_KR, GBK, GB18030, ISO_2022_JP, ISO_2022_JP, SHIFT_JIS, UTF_8, WINDOWS_1252, X_USER_DEFINED, KOI8_U, UTF_16LE]) };
    let form16 = rng.chance(1, 2);
    let long = rng.chance(3, 20);
    let cfg = draw_text_cfg(rng, long, form16);
    let text = gen_text(rng, &cfg);
    let repl = match prop {
        "C09" => true,
        _ => rng.chance(1, 2),
    };
    EncSpec { enc, repl, form16, text }
}

fn draw_mem_spec(rng: &mut Rng) -> MemSpec {
    let func = rng.pick(&[MemFn::Utf16ToUtf8Partial, MemFn::Utf16ToStrPartial, MemFn::Utf16ToStrPartial, MemFn::Latin1ToUtf8Partial, MemFn::Latin1ToStrPartial, MemFn::Utf16ToStr, MemFn::Latin1ToStr]);
    let n = if crate::gen::tiny() { rng.range(0, 24) } else if rng.chance(1, 4) { rng.range(30, 300) } else { rng.range(0, 40) };
    let ascii_pct = rng.pick(&[0usize, 50, 90, 98]);
    let mut src = Vec::with_capacity(n);
    while src.len() < n {
        if rng.chance(1, 6) {
            let run = rng.pick(&[7usize, 15, 16, 17, 31, 32, 33, 64]);
            for _ in 0..run.min(n - src.len()) {
                src.push(b'a' as u16);
            }
            continue;
        }
        let u: u16 = if rng.below(100) < ascii_pct {
            rng.pick(&[b'a' as u16, b' ' as u16, 0x7F, 0x00, b'z' as u16])
        } else if func.src16() {
            rng.pick(&[0x80u16, 0xE9, 0xFF, 0x7FF, 0x800, 0x20AC, 0xFFFD, 0xFFFF, 0xD83D, 0xDCA9, 0xD800, 0xDFFF, 0xDBFF, 0xDC00, 0x4E00])
        } else {
            rng.pick(&[0x80u16, 0xE9, 0xFF, 0xA0, 0xC3, 0xBF])
        };
        src.push(u);
    }
    MemSpec { func, src }
}

/// Draw the case (without ops) and the swarm profile for one run.
pub fn generate(prop: &str, rng: &mut Rng, skip_fast: bool, run_index: u64) -> (Case, Profile) {
    // systematic scalar sweeps (C12, C17): every other run
    // (C04, C09: every fourth run)
    let sweep_every = match prop {
        "C17" | "C12" => 2,
        "C04" | "C09" => 4,
        _ => 0,
    };
    if !crate::gen::tiny() && sweep_every != 0 && run_index % sweep_every == 0 {
        let spec = if prop == "C17" { sweep_enc_spec(rng, &CJK7, run_index / sweep_every, prop) } else { sweep_enc_spec(rng, &SWEEP11, run_index / sweep_every, prop) };
        let mut p = Profile::draw(rng, &[K_SLICE, K_STRING]);
        p.thresholds = vec![10, 14, 13, 4];
        p.pipe = prop == "C12";
        return (Case::Enc { spec, ops: Vec::new() }, p);
    }
    // which scenario
    let scen = match prop {
        // (C17: the pure mem / validator functions too - their results are
        // fully specified, so every build must give the same ones)
        "C17" => rng.weighted(&[8, 10, 2, 1]),
        "C02" | "C10" | "C19" => 0,
        "C04" | "C12" => 1,
        "C05" => rng.weighted(&[7, 0, 3]),
        "C06" if !crate::gen::tiny() || run_index % 4 == 0 => rng.weighted(&[6, 3, 2, 3]),
        "C06" | "C18" => rng.weighted(&[6, 3, 2]),
        _ => rng.weighted(&[5, 4, 0]),
    };
    match scen {
        0 => {
            let (spec, st) = draw_dec_spec(rng, prop, skip_fast, run_index);
            let kinds_all: Vec<u8> = if spec.form16 {
                vec![K_U16]
            } else if prop == "C05" {
                vec![K_STR, K_STR, K_STRING, K_SLICE]
            } else {
                vec![K_SLICE, K_STR, K_STRING]
            };
            let mut p = Profile::draw(rng, &kinds_all);
            match prop {
                "C05" => {
                    p.reuse = rng.chance(1, 2);
                    p.submin = rng.chance(1, 3);
                    p.switch_methods = rng.chance(1, 4);
                }
                "C07" => {
                    p.query_pct = 70;
                    p.peek = rng.chance(1, 2);
                    p.switch_methods = rng.chance(1, 3);
                    p.query_slack = true;
                }
                "C08" => {
                    p.cap = rng.pick(&[0u8, 0, 1, 1, 2]);
                    p.stall = true;
                    p.query_pct = 0;
                    p.switch_methods = rng.chance(1, 4);
                }
                "C06" => p.switch_methods = rng.chance(1, 4),
                "C17" => p.peek = true,
                "C10" => {
                    // faults concentrated in the first bytes
                    p.seg = rng.pick(&[0u8, 0, 1, 2, 4]);
                    p.cap = rng.pick(&[0u8, 1, 2, 5, 5]);
                }
                "C19" => {
                    p.peek = true;
                    p.query_pct = 0;
                }
                _ => {}
            }
            if st.strategy == "long-morph" {
                // delivered in one or two segments, every call sized by the query, String sinks
                p.seg = rng.pick(&[3u8, 3, 0, 4]);
                p.query_pct = 100;
                p.peek = false;
                p.switch_methods = false;
                if !spec.form16 {
                    p.kinds = vec![rng.pick(&[K_STRING, K_STRING, K_SLICE, K_STR])];
                }
            }
            (Case::Dec { spec, ops: Vec::new(), strategy: format!("{}{}{}", st.strategy, if st.corrupt { "+corrupt" } else { "" }, if st.truncate { "+truncate" } else { "" }) }, p)
        }
        1 => {
            let spec = draw_enc_spec(rng, prop);
            let mut p = Profile::draw(rng, &[K_SLICE, K_STRING]);
            p.thresholds = vec![10, 14, 13, 4];
            match prop {
                "C07" => {
                    p.query_pct = 70;
                    p.peek = rng.chance(1, 2);
                    p.query_slack = true;
                }
                "C08" => {
                    p.cap = rng.pick(&[0u8, 0, 1, 1, 2]);
                    p.stall = true;
                    p.query_pct = 0;
                }
                "C12" => {
                    p.pipe = true;
                    p.submin = rng.chance(1, 3);
                    p.submin_any_kind = true;
                }
                "C06" => {
                    p.submin = rng.chance(1, 3);
                    p.submin_any_kind = true;
                }
                "C17" => p.peek = true,
                _ => {}
            }
            (Case::Enc { spec, ops: Vec::new() }, p)
        }
        3 => {
            let spec = crate::memfn::draw(rng, run_index);
            let p = Profile::draw(rng, &[K_SLICE]);
            (Case::MemFn { spec, ops: Vec::new() }, p)
        }
        _ => {
            let spec = draw_mem_spec(rng);
            let mut p = Profile::draw(rng, &[K_SLICE]);
            p.query_pct = 0;
            p.cap = rng.pick(&[0u8, 1, 2, 3, 3, 5]);
            if prop == "C05" {
                p.submin = true;
                p.submin_any_kind = true;
            }
            (Case::Mem { spec, ops: Vec::new() }, p)
        }
    }
}

// ---------------------------------------------------------------------
// harness-side models

/// BOM decision model (Appendix B of DESIGN.md): which encoding is in effect
/// and how many bytes of BOM are swallowed, for a complete stream.
pub fn bom_model(enc: &'static Encoding, bom: Bom, stream: &[u8]) -> (&'static Encoding, usize) {
    let utf8 = stream.starts_with(&[0xEF, 0xBB, 0xBF]);
    let be = stream.starts_with(&[0xFE, 0xFF]);
    let le = stream.starts_with(&[0xFF, 0xFE]);
    match bom {
        Bom::Off => (enc, 0),
        Bom::Remove => {
            if enc == UTF_8 && utf8 {
                (enc, 3)
            } else if enc == UTF_16BE && be {
                (enc, 2)
            } else if enc == UTF_16LE && le {
                (enc, 2)
            } else {
                (enc, 0)
            }
        }
        Bom::Sniff => {
            if utf8 {
                (UTF_8, 3)
            } else if be {
                (UTF_16BE, 2)
            } else if le {
                (UTF_16LE, 2)
            } else {
                (enc, 0)
            }
        }
    }
}

/// Is the BOM decision still open after `k` acknowledged bytes?
pub fn bom_open(enc: &'static Encoding, bom: Bom, acked: &[u8]) -> bool {
    let cands: Vec<&[u8]> = match bom {
        Bom::Off => vec![],
        Bom::Sniff => vec![&[0xEF, 0xBB, 0xBF], &[0xFE, 0xFF], &[0xFF, 0xFE]],
        Bom::Remove => {
            if enc == UTF_8 {
                vec![&[0xEF, 0xBB, 0xBF]]
            } else if enc == UTF_16BE {
                vec![&[0xFE, 0xFF]]
            } else if enc == UTF_16LE {
                vec![&[0xFF, 0xFE]]
            } else {
                vec![]
            }
        }
    };
    cands.iter().any(|c| acked.len() < c.len() && c.starts_with(acked))
}

const KATAKANA_FOLD: [u32; 63] = [
    0x3002, 0x300C, 0x300D, 0x3001, 0x30FB, 0x30F2, 0x30A1, 0x30A3, 0x30A5, 0x30A7, 0x30A9, 0x30E3, 0x30E5, 0x30E7, 0x30C3, 0x30FC, 0x30A2, 0x30A4, 0x30A6, 0x30A8, 0x30AA, 0x30AB,
    0x30AD, 0x30AF, 0x30B1, 0x30B3, 0x30B5, 0x30B7, 0x30B9, 0x30BB, 0x30BD, 0x30BF, 0x30C1, 0x30C4, 0x30C6, 0x30C8, 0x30CA, 0x30CB, 0x30CC, 0x30CD, 0x30CE, 0x30CF, 0x30D2, 0x30D5,
    0x30D8, 0x30DB, 0x30DE, 0x30DF, 0x30E0, 0x30E1, 0x30E2, 0x30E4, 0x30E6, 0x30E8, 0x30E9, 0x30EA, 0x30EB, 0x30EC, 0x30ED, 0x30EF, 0x30F3, 0x309B, 0x309C,
];

const GB_PUA: [(u32, u32); 18] = [
    (0xE78D, 0xFE10), (0xE78E, 0xFE12), (0xE78F, 0xFE11), (0xE790, 0xFE13), (0xE791, 0xFE14), (0xE792, 0xFE15), (0xE793, 0xFE16), (0xE794, 0xFE17), (0xE795, 0xFE18),
    (0xE796, 0xFE19), (0xE81E, 0x9FB4), (0xE826, 0x9FB5), (0xE82B, 0x9FB6), (0xE82C, 0x9FB7), (0xE832, 0x9FB8), (0xE843, 0x9FB9), (0xE854, 0x9FBA), (0xE864, 0x9FBB),
];

/// The fixed set of characters the Standard's encoders fold on purpose.
pub fn fold(enc: &'static Encoding, c: char) -> char {
    let v = c as u32;
    let f = match family(enc) {
        Family::EucJp | Family::ShiftJis => match v {
            0xA5 => 0x5C,
            0x203E => 0x7E,
            0x2212 => 0xFF0D,
            _ => v,
        },
        Family::Iso2022Jp => match v {
            0x2212 => 0xFF0D,
            0xFF61..=0xFF9F => KATAKANA_FOLD[(v - 0xFF61) as usize],
            _ => v,
        },
        Family::Gbk | Family::Gb18030 => GB_PUA.iter().find(|p| p.0 == v).map(|p| p.1).unwrap_or(v),
        _ => v,
    };
    char::from_u32(f).unwrap()
}

// ---------------------------------------------------------------------
// C19 helpers

/// Exact fork of the decoder: the recorded call history replayed into a
/// fresh decoder (same chunks, same capacities, same `last`).
fn fork_decoder(spec: &DecSpec, calls: &[CallRec]) -> Decoder {
    let mut d = new_decoder(spec.enc, spec.bom);
    for c in calls {
        let g = crate::sink::Guard8::from(&spec.stream[c.consumed_before..c.consumed_before + c.src_len], 0);
        let src = g.slice();
        if spec.form16 {
            let mut dst = vec![0u16; c.cap];
            if spec.repl {
                let _ = d.decode_to_utf16(src, &mut dst, c.last);
            } else {
                let _ = d.decode_to_utf16_without_replacement(src, &mut dst, c.last);
            }
        } else {
            let mut dst = vec![0u8; c.cap];
            if spec.repl {
                let _ = d.decode_to_utf8(src, &mut dst, c.last);
            } else {
                let _ = d.decode_to_utf8_without_replacement(src, &mut dst, c.last);
            }
        }
    }
    d
}

fn plain_ascii(b: u8) -> bool {
    (0x20..0x7F).contains(&b) || b == b'\n'
}

/// Bytes below 0x80 that the encoding does not pass through unchanged.
fn passes_through(enc: &'static Encoding, b: u8) -> bool {
    if b >= 0x80 {
        return false;
    }
    match family(enc) {
        Family::Iso2022Jp => !(b == 0x0E || b == 0x0F || b == 0x1B),
        _ => true,
    }
}

fn peek_latin1(d: &Decoder, spec: &DecSpec, calls: &[CallRec], consumed: usize, pending: &[u8]) -> Vec<Viol> {
    match crate::sink::guard(|| peek_latin1_inner(d, spec, calls, consumed, pending)) {
        Ok(v) => v,
        Err(_) => vec![viol("C06", "panic-in-contract", format!("a decoder forked from the recorded history panicked while being probed with ample buffers: {}", crate::sink::take_panic()))],
    }
}

fn peek_latin1_inner(d: &Decoder, spec: &DecSpec, calls: &[CallRec], consumed: usize, pending: &[u8]) -> Vec<Viol> {
    let mut v = Vec::new();
    let res = match crate::sink::guard((|| d.latin1_byte_compatible_up_to(pending))) {
        Ok(r) => r,
        Err(_) => {
            v.push(viol("C19", "peek-panicked", format!("latin1_byte_compatible_up_to panicked: {}", crate::sink::take_panic())));
            return v;
        }
    };
    let cur = d.encoding();
    let fam = family(cur);
    let never = matches!(fam, Family::Replacement | Family::Utf16Be | Family::Utf16Le);
    let acked = &spec.stream[..consumed];
    // The decoder may legitimately have resolved the BOM question by looking
    // at a byte it then left unread, so "must be None" is asserted only while
    // even the bytes it has been *shown* leave the question open.
    let shown_len = calls.iter().map(|c| c.consumed_before + c.src_len).max().unwrap_or(0).max(consumed);
    let open_acked = bom_open(spec.enc, spec.bom, acked);
    // ... and while it has not been told that the stream has ended.
    let open = open_acked && bom_open(spec.enc, spec.bom, &spec.stream[..shown_len]) && !calls.iter().any(|c| c.last);
    // mid-sequence probe: the same history, then an empty last call
    let mid = {
        let mut f = fork_decoder(spec, calls);
        let mut dst = vec![0u8; 64];
        let mut mid = false;
        let mut guard = 0;
        loop {
            guard += 1;
            let (r, _rd, wr) = f.decode_to_utf8_without_replacement(b"", &mut dst, true);
            if wr > 0 {
                mid = true;
            }
            match r {
                DecoderResult::InputEmpty => break,
                DecoderResult::Malformed(_, _) => mid = true,
                DecoderResult::OutputFull => {}
            }
            if guard > 8 {
                break;
            }
        }
        mid
    };
    match res {
        Some(n) => {
            if never {
                v.push(viol("C19", "some-for-never-compatible-encoding", format!("{} returned Some({})", cur.name(), n)));
            }
            if open {
                v.push(viol("C19", "some-while-bom-open", format!("Some({}) although the BOM decision is open after {:02x?}", n, acked)));
            }
            if mid {
                v.push(viol("C19", "some-while-mid-sequence", format!("Some({}) although the decoder holds unfinished input after {} bytes", n, consumed)));
            }
            if n > pending.len() {
                v.push(viol("C19", "n-exceeds-buffer", format!("Some({}) for a {}-byte buffer", n, pending.len())));
                return v;
            }
            if never || open_acked || mid {
                return v;
            }
            // soundness: the first n bytes decode to exactly those scalar values
            let mut f = fork_decoder(spec, calls);
            let mut dst = vec![0u16; 2 * n + 8];
            let (_r, rd, wr) = f.decode_to_utf16_without_replacement(&pending[..n], &mut dst, false);
            let expect: Vec<u16> = pending[..n].iter().map(|&b| b as u16).collect();
            if rd != n || wr != n || dst[..wr] != expect[..] {
                v.push(viol(
                    "C19",
                    "prefix-not-byte-compatible",
                    format!("Some({}) for {:02x?}, but feeding those bytes gives read {} written {} {:04x?}", n, pending, rd, wr, &dst[..wr.min(dst.len())]),
                ));
            }
            // exactness: byte n is one the encoding does not pass through
            if n < pending.len() {
                let b = pending[n];
                let stops_rightly = if cur.is_single_byte() {
                    // precisely the first byte that decodes to something else
                    let mut g = cur.new_decoder_without_bom_handling();
                    let mut o = [0u16; 4];
                    let (_r, _rd, w) = g.decode_to_utf16_without_replacement(&[b], &mut o, false);
                    !(w == 1 && o[0] == b as u16)
                } else {
                    !passes_through(cur, b)
                };
                if !stops_rightly {
                    v.push(viol("C19", "stops-short", format!("Some({}) for {:02x?}: byte {:02x} at index {} is passed through unchanged by {}", n, pending, b, n, cur.name())));
                }
            }
        }
        None => {
            // must be Some: only asserted where that is certain
            let resolved = !open_acked;
            let (_, bom_len) = bom_model(spec.enc, spec.bom, acked);
            let all_plain = acked[bom_len.min(acked.len())..].iter().all(|&b| plain_ascii(b));
            if !never && resolved && all_plain && !mid && !calls.is_empty() && consumed > bom_len {
                v.push(viol("C19", "none-in-neutral-state", format!("None for {} after only plain ASCII {:02x?}", cur.name(), acked)));
            }
        }
    }
    v
}

// ---------------------------------------------------------------------
// C07 overflow ladder

fn ladder() -> Vec<usize> {
    let mut v = vec![0usize, 1, 2, 3, 4, 5, 7, 8, 15, 16, 17, 100];
    let mut k = 8;
    while k < usize::BITS {
        v.push(1usize << k);
        v.push((1usize << k) + 1);
        k += 4;
    }
    let m = usize::MAX;
    v.extend_from_slice(&[m / 8, m / 6, m / 5, m / 4, m / 4 + 1, m / 3, m / 3 + 1, m / 2 - 1, m / 2, m / 2 + 1, m - 16, m - 4, m - 3, m - 2, m - 1, m]);
    v.sort_unstable();
    v.dedup();
    v
}

/// C17: the values of a query over the whole ladder, folded into the run's
/// transcript (a panic is a value too: the assertion-carrying build must not
/// panic where the other build answers, and vice versa).
fn ladder_digest(name: &str, short: bool, d: &std::cell::RefCell<crate::rng::Digest>, f: &dyn Fn(usize) -> Option<usize>) {
    let mut line = String::new();
    let m = usize::MAX;
    let rungs = if short { vec![0usize, 1, 2, 3, 100, 1 << 16, m / 4, m / 3, m / 2, m - 2, m - 1, m] } else { ladder() };
    for n in rungs {
        let r = crate::sink::guard(|| f(n));
        let mut d = d.borrow_mut();
        match r {
            Ok(Some(x)) => {
                d.byte(1);
                d.usize(x);
                if crate::sink::log_calls() {
                    line.push_str(&format!(" {}->{}", n, x));
                }
            }
            Ok(None) => {
                d.byte(2);
                if crate::sink::log_calls() {
                    line.push_str(&format!(" {}->None", n));
                }
            }
            Err(_) => {
                let p = crate::sink::take_panic();
                d.byte(3);
                if crate::sink::log_calls() {
                    line.push_str(&format!(" {}->PANIC({})", n, p));
                }
            }
        }
    }
    if crate::sink::log_calls() {
        crate::sink::log_call(format!("query {}:{}", name, line));
    }
}

fn check_ladder(name: &str, f: &dyn Fn(usize) -> Option<usize>) -> Vec<Viol> {
    let mut v = Vec::new();
    let mut prev: Option<(usize, Option<usize>)> = None;
    for n in ladder() {
        let r = match crate::sink::guard((|| f(n))) {
            Ok(r) => r,
            Err(_) => {
                v.push(viol("C07", "query-panicked", format!("{}({}) panicked: {}", name, n, crate::sink::take_panic())));
                return v;
            }
        };
        if let Some((pn, pr)) = prev {
            match (pr, r) {
                (None, Some(x)) => v.push(viol("C07", "query-wrapped", format!("{}({}) = None but {}({}) = Some({})", name, pn, name, n, x))),
                (Some(a), Some(b)) if b < a => v.push(viol("C07", "query-wrapped", format!("{}({}) = {} > {}({}) = {}", name, pn, a, name, n, b))),
                _ => {}
            }
        }
        prev = Some((n, r));
        if v.len() > 2 {
            break;
        }
    }
    v
}

// ---------------------------------------------------------------------
// execution

fn cmp_text(a: &[char], b: &[char]) -> Option<String> {
    if a == b {
        return None;
    }
    let i = a.iter().zip(b.iter()).position(|(x, y)| x != y).unwrap_or(a.len().min(b.len()));
    let show = |t: &[char]| t.iter().skip(i.saturating_sub(2)).take(8).map(|c| format!("U+{:04X}", *c as u32)).collect::<Vec<_>>().join(" ");
    Some(format!("first difference at scalar {} (lengths {} vs {}): [{}] vs [{}]", i, a.len(), b.len(), show(a), show(b)))
}

fn exec_dec(prop: &str, spec: &DecSpec, source: &mut dyn OpSource) -> RunOut {
    let mode = match prop {
        "C18" => DecMode::Replicas,
        "C19" => DecMode::Peek,
        "C09" => DecMode::Manual,
        _ => DecMode::Plain,
    };
    let mut peek19 = |d: &Decoder, s: &DecSpec, calls: &[CallRec], consumed: usize, pending: &[u8], _what: u8| peek_latin1(d, s, calls, consumed, pending);
    let mut peek07 = |d: &Decoder, _s: &DecSpec, _calls: &[CallRec], _consumed: usize, _pending: &[u8], what: u8| match what % 3 {
        0 => check_ladder("max_utf8_buffer_length", &|n| d.max_utf8_buffer_length(n)),
        1 => check_ladder("max_utf8_buffer_length_without_replacement", &|n| d.max_utf8_buffer_length_without_replacement(n)),
        _ => check_ladder("max_utf16_buffer_length", &|n| d.max_utf16_buffer_length(n)),
    };
    let qd = std::cell::RefCell::new(crate::rng::Digest::new());
    let mut peek17 = |d: &Decoder, _s: &DecSpec, _calls: &[CallRec], _consumed: usize, _pending: &[u8], what: u8| {
        let short = what == 255;
        ladder_digest("max_utf8_buffer_length", short, &qd, &|n| d.max_utf8_buffer_length(n));
        ladder_digest("max_utf8_buffer_length_without_replacement", short, &qd, &|n| d.max_utf8_buffer_length_without_replacement(n));
        ladder_digest("max_utf16_buffer_length", short, &qd, &|n| d.max_utf16_buffer_length(n));
        Vec::new()
    };
    crate::sink::set_peek_every_call(prop == "C17");
    let run = match prop {
        "C19" => drive_dec(spec, mode, source, Some(&mut peek19)),
        "C07" => drive_dec(spec, mode, source, Some(&mut peek07)),
        "C17" => drive_dec(spec, mode, source, Some(&mut peek17)),
        _ => drive_dec(spec, mode, source, None),
    };
    let query_digest = qd.borrow().0;
    let mut viols = run.viols.clone();
    let n = spec.stream.len();
    let complete = run.aborted.is_none();

    // C10: a panic while withheld BOM bytes are being resolved means those
    // bytes were never delivered
    if prop == "C10" && spec.bom != Bom::Off && run.consumed < 3 {
        if let Some(a) = &run.aborted {
            if a.starts_with("panic") && run.viols.iter().any(|v| v.oracle == "panic-in-contract") {
                viols.push(viol("C10", "panic-while-resolving-bom", format!("after {} bytes of {:02x?}: {}", run.consumed, &spec.stream[..spec.stream.len().min(4)], a)));
            }
        }
    }
    // A call that panics although the caller kept to the documented sizes and
    // protocol is C06's to report; it also breaks the history-quantified
    // property being checked when the null-schedule reference shows that the
    // same stream converts without panicking (C02, C10), and it is not
    // progress (C08).
    if run.panicked_in_contract {
        let what = run.aborted.clone().unwrap_or_default();
        match prop {
            "C02" | "C10" => {
                let r = reference_dec(spec.enc, spec.bom, spec.repl, spec.form16, &spec.stream);
                if r.ok {
                    viols.push(viol("C02", "chunked-history-panics-single-call-does-not", format!("after {} of {} bytes: {}", run.consumed, n, what)));
                    if prop == "C10" {
                        viols.push(viol("C10", "chunked-history-panics-single-call-does-not", format!("after {} of {} bytes: {}", run.consumed, n, what)));
                    }
                }
            }
            "C08" => viols.push(viol("C08", "call-panicked-instead-of-progress", format!("after {} of {} bytes: {}", run.consumed, n, what))),
            _ => {}
        }
    }
    // C08: bounded liveness
    if complete && matches!(prop, "C08" | "C02" | "C10") {
        if !run.finished {
            // only when the environment did its part (everything delivered, EOF
            // raised): a schedule that never delivers is no fault of the code
            if run.env_done {
                viols.push(viol("C08", "stream-did-not-finish", format!("{} events, {} calls, {} of {} bytes consumed", run.events, run.calls.len(), run.consumed, n)));
            }
        }
        let own_calls = run.calls.iter().filter(|c| c.cap >= min_cap(spec.form16)).count().saturating_sub(run.env_calls);
        if own_calls > 4 * n + 16 {
            viols.push(viol("C08", "call-bound-exceeded", format!("{} calls (plus {} empty deliveries) for {} input bytes", own_calls, run.env_calls, n)));
        }
    }

    // a chunked history that never ends (environment done, event cap reached)
    // while the single call on the same stream does: there is no chunked result
    // to be equal to the single-call one
    if complete && !run.finished && run.env_done && matches!(prop, "C02" | "C10") {
        let r = reference_dec(spec.enc, spec.bom, spec.repl, spec.form16, &spec.stream);
        if r.ok {
            let p: &'static str = if prop == "C10" { "C10" } else { "C02" };
            viols.push(viol(p, "chunked-history-does-not-finish", format!("{} events, {} calls, {} of {} bytes consumed; the single call finishes", run.events, run.calls.len(), run.consumed, n)));
        }
    }
    if complete && run.finished && matches!(prop, "C02" | "C10") {
        let text = run.text(spec.form16);
        let r = reference_dec(spec.enc, spec.bom, spec.repl, spec.form16, &spec.stream);
        if r.ok {
            if let Some(d) = cmp_text(&text, &r.text) {
                viols.push(viol("C02", "text-vs-null-schedule", d));
            }
            if spec.repl && run.had_errors != r.had_errors {
                viols.push(viol("C02", "had-errors-vs-null-schedule", format!("chunked {} vs single call {}", run.had_errors, r.had_errors)));
            }
            if !spec.repl && run.malformed != r.malformed {
                viols.push(viol("C02", "malformed-list-vs-null-schedule", format!("chunked {:?} vs single call {:?}", run.malformed, r.malformed)));
            }
            if run.final_enc != r.final_enc {
                viols.push(viol("C02", "encoding-vs-null-schedule", format!("chunked {} vs single call {}", run.final_enc.name(), r.final_enc.name())));
            }
        }
        // the other output form denotes the same scalar values and errors
        let o = reference_dec(spec.enc, spec.bom, spec.repl, !spec.form16, &spec.stream);
        if o.ok {
            if let Some(d) = cmp_text(&text, &o.text) {
                viols.push(viol("C02", "utf8-vs-utf16-form-text", d));
            }
            if !spec.repl && run.malformed != o.malformed {
                viols.push(viol("C02", "utf8-vs-utf16-form-errors", format!("{:?} vs {:?}", run.malformed, o.malformed)));
            }
            if spec.repl && run.had_errors != o.had_errors {
                viols.push(viol("C02", "utf8-vs-utf16-form-errors", format!("had_errors {} vs {}", run.had_errors, o.had_errors)));
            }
        }
        if prop == "C10" {
            let (eff, bom_len) = bom_model(spec.enc, spec.bom, &spec.stream);
            // for_bom recognises exactly the three BOMs
            let fb = match crate::sink::guard(|| Encoding::for_bom(&spec.stream)) {
                Ok(x) => x,
                Err(_) => {
                    viols.push(viol("C10", "for-bom", format!("for_bom panicked: {}", crate::sink::take_panic())));
                    None
                }
            };
            let (seff, slen) = bom_model(UTF_8, Bom::Sniff, &spec.stream);
            let expect_fb = if slen > 0 { Some((seff, slen)) } else { None };
            if fb != expect_fb {
                viols.push(viol("C10", "for-bom", format!("for_bom({:02x?}) = {:?}", &spec.stream[..spec.stream.len().min(4)], fb.map(|(e, l)| (e.name(), l)))));
            }
            if run.final_enc != eff {
                viols.push(viol("C10", "effective-encoding", format!("encoding() = {} but the stream calls for {}", run.final_enc.name(), eff.name())));
            }
            let b = reference_dec(eff, Bom::Off, spec.repl, spec.form16, &spec.stream[bom_len..]);
            if b.ok {
                if let Some(d) = cmp_text(&text, &b.text) {
                    viols.push(viol("C10", "bytes-not-delivered-exactly-once", format!("vs {} decode of stream[{}..] without BOM handling: {}", eff.name(), bom_len, d)));
                }
                let shifted: Vec<(i64, u8)> = b.malformed.iter().map(|&(s, l)| (s + bom_len as i64, l)).collect();
                if !spec.repl && run.malformed != shifted {
                    viols.push(viol("C10", "error-positions", format!("chunked {:?} vs BOM-free reference {:?}", run.malformed, shifted)));
                }
                if spec.repl && run.had_errors != b.had_errors {
                    viols.push(viol("C10", "had-errors", format!("chunked {} vs BOM-free reference {}", run.had_errors, b.had_errors)));
                }
                // One more caller on the same stream: the crate's *own* pump
                // (`Encoding::decode*`, the "non-streaming for_bom / starts_with
                // based handling" named by the property), in the same BOM mode,
                // judged by the same BOM model and BOM-free reference. Its
                // schedule is its own; it is never used as an oracle.
                if spec.repl {
                    let own = crate::sink::guard(|| match spec.bom {
                        Bom::Off => {
                            let (t, h) = spec.enc.decode_without_bom_handling(&spec.stream);
                            (t.into_owned(), None, h)
                        }
                        Bom::Remove => {
                            let (t, h) = spec.enc.decode_with_bom_removal(&spec.stream);
                            (t.into_owned(), None, h)
                        }
                        Bom::Sniff => {
                            let (t, e, h) = spec.enc.decode(&spec.stream);
                            (t.into_owned(), Some(e), h)
                        }
                    });
                    match own {
                        Ok((t, e, h)) => {
                            let tc: Vec<char> = t.chars().collect();
                            if let Some(d) = cmp_text(&tc, &b.text) {
                                viols.push(viol("C10", "own-pump-bom-handling", format!("Encoding::decode* ({}) vs {} decode of stream[{}..] without BOM handling: {}", spec.bom.name(), eff.name(), bom_len, d)));
                            }
                            if let Some(e) = e {
                                if e != eff {
                                    viols.push(viol("C10", "own-pump-effective-encoding", format!("Encoding::decode reports {} but the stream calls for {}", e.name(), eff.name())));
                                }
                            }
                            if h != b.had_errors {
                                viols.push(viol("C10", "own-pump-had-errors", format!("Encoding::decode* reports had_errors = {}, BOM-free reference {}", h, b.had_errors)));
                            }
                        }
                        Err(_) => viols.push(viol("C10", "own-pump-panicked", format!("Encoding::decode* panicked: {}", crate::sink::take_panic()))),
                    }
                } else if spec.bom == Bom::Off {
                    match crate::sink::guard(|| spec.enc.decode_without_bom_handling_and_without_replacement(&spec.stream).map(|t| t.into_owned())) {
                        Ok(None) => {
                            if b.malformed.is_empty() {
                                viols.push(viol("C10", "own-pump-bom-handling", "decode_without_bom_handling_and_without_replacement = None for a stream the streaming decoder accepts".to_string()));
                            }
                        }
                        Ok(Some(t)) => {
                            let tc: Vec<char> = t.chars().collect();
                            if !b.malformed.is_empty() {
                                viols.push(viol("C10", "own-pump-bom-handling", format!("decode_without_bom_handling_and_without_replacement = Some for a stream with malformed sequences at {:?}", b.malformed)));
                            } else if let Some(d) = cmp_text(&tc, &b.text) {
                                viols.push(viol("C10", "own-pump-bom-handling", format!("decode_without_bom_handling_and_without_replacement vs streaming without BOM handling: {}", d)));
                            }
                        }
                        Err(_) => viols.push(viol("C10", "own-pump-panicked", format!("decode_without_bom_handling_and_without_replacement panicked: {}", crate::sink::take_panic()))),
                    }
                }
            }
        }
    }
    // C09: had_errors is true exactly for the calls in which a substitution
    // happened is covered by the lock-step tuple comparison with the manual
    // replica (its flag is set exactly when it appended U+FFFD). The lock-step
    // replica deliberately mirrors the built-in loop's buffer handling, so it
    // also hands the without-replacement method the 1-2 bytes that are left
    // after a U+FFFD; a manual caller who keeps to the documented minimum
    // never does that. Second oracle, therefore: the concatenated output
    // equals the manual procedure run with its own ample buffers.
    if prop == "C09" && complete && run.finished {
        let m = reference_dec(spec.enc, spec.bom, false, spec.form16, &spec.stream);
        if m.ok {
            if let Some(d) = cmp_text(&run.text(spec.form16), &m.text) {
                viols.push(viol("C09", "builtin-vs-manual-text", format!("with replacement (chunked) vs manual U+FFFD procedure with ample buffers: {}", d)));
            }
            if run.had_errors != !m.malformed.is_empty() {
                viols.push(viol("C09", "had-errors-vs-manual", format!("had_errors (OR over calls) = {}, manual procedure met {} malformed sequences", run.had_errors, m.malformed.len())));
            }
            // One more caller on the same stream: the crate's *own* pump
            // (`Encoding::decode*`, a grow-and-retry loop over decode_to_string).
            // Its schedule is its own, not the simulator's; it is compared with
            // the same manual procedure. (It is never used as an oracle.)
            let own = crate::sink::guard(|| match spec.bom {
                Bom::Off => {
                    let (t, h) = spec.enc.decode_without_bom_handling(&spec.stream);
                    (t.into_owned(), h)
                }
                Bom::Remove => {
                    let (t, h) = spec.enc.decode_with_bom_removal(&spec.stream);
                    (t.into_owned(), h)
                }
                Bom::Sniff => {
                    let (t, _e, h) = spec.enc.decode(&spec.stream);
                    (t.into_owned(), h)
                }
            });
            match own {
                Ok((t, h)) => {
                    let tc: Vec<char> = t.chars().collect();
                    if let Some(d) = cmp_text(&tc, &m.text) {
                        viols.push(viol("C09", "own-pump-vs-manual-text", format!("Encoding::decode* vs manual U+FFFD procedure: {}", d)));
                    }
                    if h != !m.malformed.is_empty() {
                        viols.push(viol("C09", "own-pump-had-errors-vs-manual", format!("Encoding::decode* reports had_errors = {}, manual procedure met {} malformed sequences", h, m.malformed.len())));
                    }
                }
                Err(_) => viols.push(viol("C09", "own-pump-panicked", format!("Encoding::decode* panicked: {}", crate::sink::take_panic()))),
            }
        }
    }

    let mut flags = Vec::new();
    if spec.skip_fast {
        flags.push("buggify_skip_fast_utf8");
    }
    let mut states: Vec<u64> = run.calls.iter().map(|c| c.state_before).collect();
    states.sort_unstable();
    states.dedup();
    RunOut {
        viols,
        calls: run.calls.len(),
        events: run.events,
        units: n,
        faults: run.faults.clone(),
        probes: run.probes.clone(),
        sig: run.sig.finish(),
        transcript: if prop == "C17" { crate::rng::mix64(run.transcript.finish() ^ query_digest) } else { run.transcript.finish() },
        nontrivial: run.nontrivial,
        aborted: run.aborted.clone(),
        finished: run.finished,
        flags,
        states,
    }
}

fn exec_enc(prop: &str, spec: &EncSpec, source: &mut dyn OpSource) -> RunOut {
    let mode = match prop {
        "C18" => EncMode::Replicas,
        "C12" => EncMode::Pipe,
        _ => EncMode::Plain,
    };
    let mut peek07 = |e: &Encoder, what: u8| match what % 4 {
        0 => check_ladder("max_buffer_length_from_utf8_without_replacement", &|n| e.max_buffer_length_from_utf8_without_replacement(n)),
        1 => check_ladder("max_buffer_length_from_utf8_if_no_unmappables", &|n| e.max_buffer_length_from_utf8_if_no_unmappables(n)),
        2 => check_ladder("max_buffer_length_from_utf16_without_replacement", &|n| e.max_buffer_length_from_utf16_without_replacement(n)),
        _ => check_ladder("max_buffer_length_from_utf16_if_no_unmappables", &|n| e.max_buffer_length_from_utf16_if_no_unmappables(n)),
    };
    let qd = std::cell::RefCell::new(crate::rng::Digest::new());
    let mut peek17 = |e: &Encoder, what: u8| {
        let short = what == 255;
        ladder_digest("max_buffer_length_from_utf8_without_replacement", short, &qd, &|n| e.max_buffer_length_from_utf8_without_replacement(n));
        ladder_digest("max_buffer_length_from_utf8_if_no_unmappables", short, &qd, &|n| e.max_buffer_length_from_utf8_if_no_unmappables(n));
        ladder_digest("max_buffer_length_from_utf16_without_replacement", short, &qd, &|n| e.max_buffer_length_from_utf16_without_replacement(n));
        ladder_digest("max_buffer_length_from_utf16_if_no_unmappables", short, &qd, &|n| e.max_buffer_length_from_utf16_if_no_unmappables(n));
        Vec::new()
    };
    crate::sink::set_peek_every_call(prop == "C17");
    let run = match prop {
        "C07" => drive_enc(spec, mode, source, Some(&mut peek07)),
        "C17" => drive_enc(spec, mode, source, Some(&mut peek17)),
        _ => drive_enc(spec, mode, source, None),
    };
    let query_digest = qd.borrow().0;
    let mut viols = run.viols.clone();
    let nchars = spec.text.len();
    let units = if spec.form16 { text_to_utf16(&spec.text).0.len() } else { text_to_utf8(&spec.text).0.len() };
    let complete = run.aborted.is_none();

    if run.panicked_in_contract {
        let what = run.aborted.clone().unwrap_or_default();
        match prop {
            "C04" => {
                let r = reference_enc(spec.enc, spec.repl, spec.form16, &spec.text);
                if r.ok {
                    viols.push(viol("C04", "chunked-history-panics-single-call-does-not", format!("after {} calls: {}", run.calls.len(), what)));
                }
            }
            "C08" => viols.push(viol("C08", "call-panicked-instead-of-progress", format!("after {} calls: {}", run.calls.len(), what))),
            "C12" => viols.push(viol("C12", "encoder-panicked", format!("after {} calls the encoder panicked, so its output is neither complete nor decodable to the input: {}", run.calls.len(), what))),
            _ => {}
        }
    }
    if complete && matches!(prop, "C08" | "C04") {
        if !run.finished {
            if run.env_done {
                viols.push(viol("C08", "stream-did-not-finish", format!("{} events, {} calls for {} characters", run.events, run.calls.len(), nchars)));
            }
        }
        let min = enc_min_cap(spec.enc, spec.repl);
        let own_calls = run.calls.iter().filter(|c| c.cap >= min).count().saturating_sub(run.env_calls);
        if own_calls > 4 * units + 16 {
            viols.push(viol("C08", "call-bound-exceeded", format!("{} calls (plus {} empty deliveries) for {} input units", own_calls, run.env_calls, units)));
        }
    }

    if complete && !run.finished && run.env_done && prop == "C04" {
        let r = reference_enc(spec.enc, spec.repl, spec.form16, &spec.text);
        if r.ok {
            viols.push(viol("C04", "chunked-history-does-not-finish", format!("{} events, {} calls for {} characters; the single call finishes", run.events, run.calls.len(), nchars)));
        }
    }
    if complete && run.finished && matches!(prop, "C04" | "C09" | "C12") {
        let r = reference_enc(spec.enc, spec.repl, spec.form16, &spec.text);
        // the without-replacement twin under the null schedule: which
        // characters are unmappable, and what the manual procedure yields
        let m = reference_enc(spec.enc, false, spec.form16, &spec.text);
        if prop == "C04" && r.ok {
            if run.out != r.out {
                viols.push(viol("C04", "bytes-vs-null-schedule", format!("chunked {} vs single call {}", hex(&run.out), hex(&r.out))));
            }
            if !spec.repl && run.unmappables != r.unmappables {
                viols.push(viol("C04", "unmappables-vs-null-schedule", format!("chunked {:?} vs single call {:?}", run.unmappables, r.unmappables)));
            }
            if spec.repl && run.had_unmappables != r.had_unmappables {
                viols.push(viol("C04", "had-unmappables-vs-null-schedule", format!("chunked {} vs single call {}", run.had_unmappables, r.had_unmappables)));
            }
            // source-form twin: same text in the other form, same bytes
            let o = reference_enc(spec.enc, spec.repl, !spec.form16, &spec.text);
            if o.ok {
                if run.out != o.out {
                    viols.push(viol("C04", "utf8-vs-utf16-source-bytes", format!("{} source gives {} but the other form gives {}", if spec.form16 { "UTF-16" } else { "UTF-8" }, hex(&run.out), hex(&o.out))));
                }
                if !spec.repl && run.unmappables != o.unmappables {
                    viols.push(viol("C04", "utf8-vs-utf16-source-unmappables", format!("{:?} vs {:?}", run.unmappables, o.unmappables)));
                }
            }
        }
        if prop == "C09" && m.ok && spec.repl && !spec.form16 {
            // the crate's own pump (`Encoding::encode`) on the same text
            let s8 = text_to_utf8(&spec.text).0;
            match crate::sink::guard(|| {
                let (b, _e, h) = spec.enc.encode(&s8);
                (b.into_owned(), h)
            }) {
                Ok((b, h)) => {
                    if b != m.out {
                        viols.push(viol("C09", "own-pump-vs-manual-ncr-bytes", format!("Encoding::encode {} vs manual procedure {}", hex(&b), hex(&m.out))));
                    }
                    if h != !m.unmappables.is_empty() {
                        viols.push(viol("C09", "own-pump-had-unmappables-vs-manual", format!("Encoding::encode reports {}, manual procedure met {} unmappable characters", h, m.unmappables.len())));
                    }
                }
                Err(_) => viols.push(viol("C09", "own-pump-panicked", format!("Encoding::encode panicked: {}", crate::sink::take_panic()))),
            }
        }
        if prop == "C09" && m.ok && spec.repl {
            if run.out != m.out {
                viols.push(viol("C09", "builtin-vs-manual-ncr-bytes", format!("with replacement {} vs manual procedure {}", hex(&run.out), hex(&m.out))));
            }
            for (i, c) in run.calls.iter().enumerate() {
                let expect = m.unmappables.iter().any(|&(idx, _)| idx >= c.char_before && idx < c.char_after);
                if c.had_unmappables != expect {
                    viols.push(viol(
                        "C09",
                        "had-unmappables-flag",
                        format!("call {} consumed characters {}..{}: had_unmappables = {}, manual procedure substituted there: {}", i, c.char_before, c.char_after, c.had_unmappables, expect),
                    ));
                    break;
                }
            }
        }
        if prop == "C12" && m.ok {
            let scalars = text_scalars(&spec.text);
            let mut expect = String::new();
            let mut ui = 0usize;
            for (i, &c) in scalars.iter().enumerate() {
                if ui < m.unmappables.len() && m.unmappables[ui].0 == i {
                    expect.push_str(&format!("&#{};", m.unmappables[ui].1 as u32));
                    ui += 1;
                } else {
                    expect.push(fold(spec.enc.output_encoding(), c));
                }
            }
            if run.pipe_text != expect {
                let a: Vec<char> = run.pipe_text.chars().collect();
                let b: Vec<char> = expect.chars().collect();
                viols.push(viol("C12", "roundtrip", format!("decoding the encoder's output: {}", cmp_text(&a, &b).unwrap_or_default())));
            }
            if run.final_pending_state {
                viols.push(viol("C12", "pending-state-after-finish", "has_pending_state() is true after the final InputEmpty".into()));
            }
        }
    }

    RunOut {
        viols,
        calls: run.calls.len(),
        events: run.events,
        units,
        faults: run.faults.clone(),
        probes: run.probes.clone(),
        sig: run.sig.finish(),
        transcript: if prop == "C17" { crate::rng::mix64(run.transcript.finish() ^ query_digest) } else { run.transcript.finish() },
        nontrivial: run.nontrivial,
        aborted: run.aborted.clone(),
        finished: run.finished,
        flags: Vec::new(),
        states: Vec::new(),
    }
}

fn exec_mem(prop: &str, spec: &MemSpec, source: &mut dyn OpSource) -> RunOut {
    let run = drive_mem(spec, prop == "C18", source);
    RunOut {
        viols: run.viols.clone(),
        calls: run.calls,
        events: run.events,
        units: spec.src.len(),
        faults: run.faults.clone(),
        probes: Vec::new(),
        sig: run.sig.finish(),
        transcript: run.transcript.finish(),
        nontrivial: run.nontrivial,
        aborted: run.aborted.clone(),
        finished: run.finished,
        flags: Vec::new(),
        states: Vec::new(),
    }
}

fn exec_memfn(spec: &crate::memfn::MemFnSpec) -> RunOut {
    let (viols, transcript) = crate::memfn::execute(spec);
    let mut sig = crate::rng::Digest::new();
    sig.u64(crate::props::scenario_id(&spec.func));
    sig.u64(spec.src.len() as u64);
    RunOut {
        viols,
        calls: 1,
        events: 1,
        units: spec.src.len(),
        faults: Faults { placement: (spec.src_off != 0 || spec.dst_off != 0) as u64, ..Faults::default() },
        probes: vec![("mem_function_call", 1)],
        sig: sig.finish(),
        transcript,
        nontrivial: false,
        aborted: None,
        finished: true,
        flags: vec!["workload_mem_function_call"],
        states: Vec::new(),
    }
}

/// Execute one case. With `Source::Prng` the scheduler decides the ops and
/// they are recorded into the case; with `Source::Replay` the recorded ops
/// are executed with no PRNG.
pub fn execute(prop: &str, case: &mut Case, source: Source) -> RunOut {
    let hot = match case {
        Case::Dec { spec, .. } => hot_cuts(spec.enc, &spec.stream),
        _ => Vec::new(),
    };
    let mut prng_src;
    let mut replay_src;
    let src: &mut dyn OpSource = match source {
        Source::Prng(rng, profile) => {
            prng_src = PrngSource::new(rng, profile, hot);
            &mut prng_src
        }
        Source::Replay => {
            replay_src = ReplaySource::new(case.ops().clone());
            &mut replay_src
        }
    };
    let out = match case {
        Case::Dec { spec, .. } => exec_dec(prop, spec, src),
        Case::Enc { spec, .. } => exec_enc(prop, spec, src),
        Case::Mem { spec, .. } => exec_mem(prop, spec, src),
        Case::MemFn { spec, .. } => exec_memfn(spec),
    };
    let rec = src.recorded().to_vec();
    *case.ops_mut() = rec;
    let mut out = out;
    if let Case::Dec { strategy, .. } = case {
        if strategy.contains("+corrupt") {
            out.flags.push("fault_corrupt_stream_byte");
        }
        if strategy.contains("+truncate") {
            out.flags.push("fault_truncate_stream");
        }
        for (k, f) in [("encoded-text", "workload_encoded_text"), ("edge-alphabet", "workload_edge_alphabet"), ("long-runs", "workload_long_runs"), ("ascii", "workload_ascii"), ("token-grammar", "workload_token_grammar"), ("enumerated-tokens", "workload_enumerated_tokens"), ("two-byte-sweep", "workload_two_byte_sweep"), ("long-morph", "workload_long_morph")] {
            if strategy.starts_with(k) {
                out.flags.push(f);
            }
        }
    }
    out
}
