//! Events of a simulated run and the two things that can decide them: the
//! seeded scheduler (`PrngSource`, which also records what it decided) and a
//! recorded trace (`ReplaySource`, no PRNG at all).

use crate::rng::Rng;
use serde_json::{json, Value};

/// Sink kinds. Decoders: 0 = `&mut [u8]`, 1 = `&mut str`, 2 = `String`,
/// 3 = `&mut [u16]`. Encoders: 0 = `&mut [u8]`, 2 = `Vec<u8>`.
pub const K_SLICE: u8 = 0;
pub const K_STR: u8 = 1;
pub const K_STRING: u8 = 2;
pub const K_U16: u8 = 3;

#[derive(Clone, Debug, PartialEq, Eq)]
pub struct Offer {
    /// capacity offered by the sink, in output units
    pub cap: usize,
    pub kind: u8,
    /// garbage pattern in the reused sink (see sink.rs)
    pub fill: u8,
    /// phase shift of multi-byte filler in `&mut str` sinks
    pub phase: u8,
    /// placement of destination / source inside their heap blocks
    pub dst_off: u8,
    pub src_off: u8,
    /// the pump first asks the matching max_*_buffer_length query and offers
    /// exactly that much (cap is then ignored)
    pub query: bool,
    /// PIPE scenario only: how the pipe re-segments what this call emitted
    pub pipe_cut: u8,
    pub pipe_hold: u8,
    /// C05 only: `cap` is offered as it is even when it is below the documented
    /// minimum (a safe `&mut str` / `String` sink must stay valid even then;
    /// nothing else is expected of such a call)
    pub submin: bool,
    /// a query-sized sink gets this much room *more* than the query asked for
    /// ("at least the length returned by ..." - a roomier sink must do as well)
    pub slack: u16,
    /// per-call choice of method (C05-C08 only): 0 = the session's own,
    /// 1 = replacing, 2 = non-replacing; and of output form: 0 = the
    /// session's own, 1 = UTF-8, 2 = UTF-16. The API allows a caller to mix
    /// them freely on one decoder.
    pub method: u8,
    pub form: u8,
}

impl Offer {
    pub fn large() -> Offer {
        Offer { cap: if crate::gen::tiny() { 96 } else { 1 << 14 }, kind: K_SLICE, fill: 0, phase: 0, dst_off: 0, src_off: 0, query: false, pipe_cut: 0, pipe_hold: 0, submin: false, method: 0, form: 0, slack: 0 }
    }
}

#[derive(Clone, Debug, PartialEq, Eq)]
pub enum Op {
    /// transport delivers n more units (clipped to what is left)
    Deliver(usize),
    /// transport signals end of stream (ignored while units are undelivered)
    Eof,
    /// sink offers capacity and the pump makes exactly one converter call
    /// with everything it holds
    Call(Offer),
    /// caller-side query on replica 0 only (PEEK / QUERY modes)
    Peek(u8),
    /// one more call on the finished converter (under catch_unwind)
    Reuse(Offer),
}

/// What the scheduler can see when it decides the next event.
#[derive(Clone, Copy, Debug)]
pub struct View {
    /// units not yet delivered by the transport
    pub remaining: usize,
    /// absolute number of units delivered so far
    pub visible: usize,
    /// units delivered but not yet consumed by the converter
    pub pending: usize,
    pub eof: bool,
    pub finished: bool,
    pub min_cap: usize,
    /// the previous call returned OutputFull
    pub last_full: bool,
}

pub trait OpSource {
    fn next(&mut self, v: &View) -> Option<Op>;
    /// everything handed out so far (the recorded trace)
    fn recorded(&self) -> &[Op];
}

// ---------------------------------------------------------------------
// swarm profile

#[derive(Clone, Debug)]
pub struct Profile {
    /// 0 one unit at a time, 1 small, 2 mixed, 3 whole, 4 biased to hot cuts
    pub seg: u8,
    pub zero_read: bool,
    /// deliver more while the pump still holds unconsumed input
    pub deliver_while_pending: bool,
    /// 0 pinned to minimum, 1 min+0..3, 2 thresholds, 3 small, 4 large, 5 mixed
    pub cap: u8,
    pub stall: bool,
    pub kinds: Vec<u8>,
    pub dirty: bool,
    pub placement: bool,
    pub peek: bool,
    pub reuse: bool,
    /// per cent of calls sized by the matching max_* query
    pub query_pct: u8,
    pub pipe: bool,
    /// extra capacity thresholds worth hitting (e.g. NCR_EXTRA for encoders)
    pub thresholds: Vec<usize>,
    /// C05: now and then offer a safe sink below the documented minimum
    pub submin: bool,
    /// ... whatever the sink kind (MEMSINK: every sink of the str functions is a safe `&mut str`)
    pub submin_any_kind: bool,
    /// the pump switches between replacing / non-replacing methods and
    /// between UTF-8 / UTF-16 output from call to call
    pub switch_methods: bool,
    pub query_slack: bool,
}

impl Profile {
    pub fn draw(rng: &mut Rng, kinds_all: &[u8]) -> Profile {
        let seg = rng.weighted(&[2, 3, 4, 1, 3]) as u8;
        let cap = rng.weighted(&[3, 3, 3, 2, 1, 4]) as u8;
        // sink kind set: one kind, or a random non-empty subset (sink_switch)
        let kinds = if kinds_all.len() == 1 || rng.chance(1, 2) {
            vec![rng.pick(kinds_all)]
        } else {
            let mut k: Vec<u8> = kinds_all.iter().copied().filter(|_| rng.chance(2, 3)).collect();
            if k.is_empty() {
                k.push(rng.pick(kinds_all));
            }
            k
        };
        Profile {
            seg,
            zero_read: rng.chance(1, 2),
            deliver_while_pending: rng.chance(1, 2),
            cap,
            stall: rng.chance(1, 3),
            kinds,
            dirty: rng.chance(2, 3),
            placement: rng.chance(2, 3),
            peek: false,
            reuse: false,
            query_pct: if rng.chance(1, 4) { 10 } else { 0 },
            pipe: false,
            thresholds: Vec::new(),
            submin: false,
            submin_any_kind: false,
            switch_methods: false,
            query_slack: false,
        }
    }
}

pub struct PrngSource<'a> {
    pub rng: &'a mut Rng,
    pub profile: Profile,
    /// positions (absolute, in units) that fall inside a multi-unit sequence
    pub hot_cuts: Vec<usize>,
    pub rec: Vec<Op>,
    stall_left: usize,
    last_offer: Option<Offer>,
    reused: bool,
    max_ops: usize,
    peeks_left: usize,
}

impl<'a> PrngSource<'a> {
    pub fn new(rng: &'a mut Rng, profile: Profile, hot_cuts: Vec<usize>) -> PrngSource<'a> {
        PrngSource { rng, profile, hot_cuts, rec: Vec::new(), stall_left: 0, last_offer: None, reused: false, max_ops: 20_000, peeks_left: 6 }
    }

    fn draw_deliver(&mut self, v: &View) -> usize {
        let r = v.remaining;
        let n = match self.profile.seg {
            0 => 1,
            1 => self.rng.range(1, 4),
            2 => match self.rng.below(6) {
                0 => 1,
                1 => 2,
                2 => 3,
                3 => self.rng.range(1, 8),
                4 => self.rng.range(1, r.max(1)),
                _ => r,
            },
            3 => r,
            _ => {
                // land on a hot cut if one lies ahead
                let ahead: Vec<usize> = self.hot_cuts.iter().copied().filter(|&c| c > v.visible).collect();
                if !ahead.is_empty() && self.rng.chance(3, 4) {
                    let k = self.rng.below(ahead.len().min(3));
                    ahead[k] - v.visible
                } else {
                    self.rng.range(1, 4)
                }
            }
        };
        n.clamp(1, r.max(1))
    }

    fn draw_offer(&mut self, v: &View) -> Offer {
        let min = v.min_cap;
        let p = self.profile.cap;
        let cap = match p {
            0 => min,
            1 => min + self.rng.below(4),
            2 => self.draw_threshold(min),
            3 => self.rng.range(min, min + 20),
            4 => (if crate::gen::tiny() { self.rng.range(24, 64) } else { self.rng.range(64, 300) }) + 4 * v.pending,
            _ => match self.rng.below(6) {
                0 => min,
                1 => min + self.rng.below(4),
                2 => self.draw_threshold(min),
                3 => self.rng.range(min, min + 20),
                4 => self.rng.range(min, 64 + 2 * v.pending),
                _ => (if crate::gen::tiny() { self.rng.range(24, 64) } else { self.rng.range(64, 300) }) + 4 * v.pending,
            },
        };
        let kind = self.rng.pick(&self.profile.kinds);
        let fill = if self.profile.dirty { self.rng.below(6) as u8 } else { 0 };
        let phase = if self.profile.dirty { self.rng.below(4) as u8 } else { 0 };
        let (dst_off, src_off) = if self.profile.placement {
            (self.rng.below(16) as u8, self.rng.below(16) as u8)
        } else {
            (0, 0)
        };
        let query = self.profile.query_pct > 0 && (self.rng.below(100) as u8) < self.profile.query_pct;
        let (pipe_cut, pipe_hold) = if self.profile.pipe {
            (self.rng.below(8) as u8, if self.rng.chance(1, 3) { self.rng.below(4) as u8 } else { 0 })
        } else {
            (0, 0)
        };
        let mut o = Offer { cap, kind, fill, phase, dst_off, src_off, query, pipe_cut, pipe_hold, submin: false, method: 0, form: 0, slack: 0 };
        if self.profile.switch_methods {
            o.method = self.rng.below(3) as u8;
            o.form = self.rng.below(3) as u8;
        }
        if o.query && self.profile.query_slack && self.rng.chance(1, 6) {
            o.slack = self.rng.pick(&[1u16, 16, 100, 4093, 4096, 4097, 5000, 9000]);
        }
        if self.profile.submin && (kind == K_STR || kind == K_STRING || self.profile.submin_any_kind) && self.rng.chance(1, 5) {
            o.submin = true;
            o.query = false;
            o.cap = self.rng.below(min.max(1));
        }
        o
    }

    fn draw_threshold(&mut self, min: usize) -> usize {
        const T: [usize; 22] = [0, 1, 2, 3, 4, 5, 6, 7, 8, 9, 10, 11, 12, 13, 14, 15, 16, 17, 20, 28, 29, 30];
        let extra = if !self.profile.thresholds.is_empty() && self.rng.chance(1, 2) {
            let t = self.profile.thresholds[self.rng.below(self.profile.thresholds.len())];
            // threshold +-1 .. +4
            (t + self.rng.below(6)).saturating_sub(1)
        } else {
            min + T[self.rng.below(T.len())]
        };
        extra.max(min)
    }
}

impl<'a> OpSource for PrngSource<'a> {
    fn next(&mut self, v: &View) -> Option<Op> {
        if self.rec.len() >= self.max_ops {
            return None;
        }
        let op = if v.finished {
            if self.profile.reuse && !self.reused {
                self.reused = true;
                let mut o = self.draw_offer(v);
                o.query = false;
                Op::Reuse(o)
            } else {
                return None;
            }
        } else {
            let need_call = v.pending > 0 || v.eof;
            if self.stall_left > 0 && need_call && v.last_full {
                // stalled consumer: the very same small capacity again
                self.stall_left -= 1;
                Op::Call(self.last_offer.clone().unwrap())
            } else {
                self.stall_left = 0;
                let can_deliver = v.remaining > 0 && !v.eof;
                let can_eof = v.remaining == 0 && !v.eof;
                let w_deliver = if can_deliver {
                    if v.pending > 0 {
                        if self.profile.deliver_while_pending { 2 } else { 0 }
                    } else {
                        6
                    }
                } else {
                    0
                };
                let w_eof = if can_eof {
                    if v.pending > 0 { 3 } else { 6 }
                } else {
                    0
                };
                let w_call = if need_call {
                    6
                } else if self.profile.zero_read {
                    1
                } else {
                    0
                };
                let w_peek = if self.profile.peek && self.peeks_left > 0 { 3 } else { 0 };
                match self.rng.weighted(&[w_deliver, w_eof, w_call, w_peek]) {
                    0 => Op::Deliver(self.draw_deliver(v)),
                    1 => Op::Eof,
                    2 => {
                        let o = self.draw_offer(v);
                        if self.profile.stall && !o.query && o.cap <= v.min_cap + 20 && self.rng.chance(1, 4) {
                            self.stall_left = self.rng.range(1, 3);
                        }
                        self.last_offer = Some(o.clone());
                        Op::Call(o)
                    }
                    _ => {
                        self.peeks_left -= 1;
                        Op::Peek(self.rng.below(8) as u8)
                    }
                }
            }
        };
        self.rec.push(op.clone());
        Some(op)
    }
    fn recorded(&self) -> &[Op] {
        &self.rec
    }
}

/// Replays a recorded trace; when the trace is exhausted before the stream
/// has finished (possible after minimisation) it completes the run plainly:
/// deliver everything, signal EOF, keep offering the last recorded sink.
pub struct ReplaySource {
    ops: Vec<Op>,
    pos: usize,
    rec: Vec<Op>,
    tail_calls: usize,
}

impl ReplaySource {
    pub fn new(ops: Vec<Op>) -> ReplaySource {
        ReplaySource { ops, pos: 0, rec: Vec::new(), tail_calls: 0 }
    }
}

impl OpSource for ReplaySource {
    fn next(&mut self, v: &View) -> Option<Op> {
        let op = if self.pos < self.ops.len() {
            self.pos += 1;
            self.ops[self.pos - 1].clone()
        } else if v.finished {
            return None;
        } else if v.remaining > 0 {
            Op::Deliver(v.remaining)
        } else if !v.eof {
            Op::Eof
        } else {
            self.tail_calls += 1;
            if self.tail_calls > 4 * v.visible + 64 {
                return None;
            }
            // keep offering what the recorded trace offered last (so that a
            // livelock at a small sink survives minimisation); a trace
            // without any call gets large plain sinks
            match self.ops.iter().rev().find_map(|o| if let Op::Call(off) = o { Some(off.clone()) } else { None }) {
                Some(mut off) => {
                    off.query = false;
                    Op::Call(off)
                }
                None => Op::Call(Offer::large()),
            }
        };
        self.rec.push(op.clone());
        Some(op)
    }
    fn recorded(&self) -> &[Op] {
        &self.rec
    }
}

// ---------------------------------------------------------------------
// JSON

pub fn offer_to_json(o: &Offer) -> Value {
    json!({"cap": o.cap, "kind": o.kind, "fill": o.fill, "phase": o.phase,
           "dst_off": o.dst_off, "src_off": o.src_off, "query": o.query,
           "pipe_cut": o.pipe_cut, "pipe_hold": o.pipe_hold, "submin": o.submin, "method": o.method, "form": o.form, "slack": o.slack})
}

fn offer_from_json(v: &Value) -> Option<Offer> {
    Some(Offer {
        cap: v.get("cap")?.as_u64()? as usize,
        kind: v.get("kind")?.as_u64()? as u8,
        fill: v.get("fill").and_then(|x| x.as_u64()).unwrap_or(0) as u8,
        phase: v.get("phase").and_then(|x| x.as_u64()).unwrap_or(0) as u8,
        dst_off: v.get("dst_off").and_then(|x| x.as_u64()).unwrap_or(0) as u8,
        src_off: v.get("src_off").and_then(|x| x.as_u64()).unwrap_or(0) as u8,
        query: v.get("query").and_then(|x| x.as_bool()).unwrap_or(false),
        pipe_cut: v.get("pipe_cut").and_then(|x| x.as_u64()).unwrap_or(0) as u8,
        pipe_hold: v.get("pipe_hold").and_then(|x| x.as_u64()).unwrap_or(0) as u8,
        submin: v.get("submin").and_then(|x| x.as_bool()).unwrap_or(false),
        method: v.get("method").and_then(|x| x.as_u64()).unwrap_or(0) as u8,
        form: v.get("form").and_then(|x| x.as_u64()).unwrap_or(0) as u8,
        slack: v.get("slack").and_then(|x| x.as_u64()).unwrap_or(0) as u16,
    })
}

pub fn op_to_json(op: &Op) -> Value {
    match op {
        Op::Deliver(n) => json!({"op": "deliver", "n": n}),
        Op::Eof => json!({"op": "eof"}),
        Op::Call(o) => {
            let mut v = offer_to_json(o);
            v["op"] = json!("call");
            v
        }
        Op::Peek(k) => json!({"op": "peek", "what": k}),
        Op::Reuse(o) => {
            let mut v = offer_to_json(o);
            v["op"] = json!("reuse");
            v
        }
    }
}

pub fn op_from_json(v: &Value) -> Option<Op> {
    match v.get("op")?.as_str()? {
        "deliver" => Some(Op::Deliver(v.get("n")?.as_u64()? as usize)),
        "eof" => Some(Op::Eof),
        "call" => Some(Op::Call(offer_from_json(v)?)),
        "peek" => Some(Op::Peek(v.get("what")?.as_u64()? as u8)),
        "reuse" => Some(Op::Reuse(offer_from_json(v)?)),
        _ => None,
    }
}

pub fn ops_to_json(ops: &[Op]) -> Value {
    Value::Array(ops.iter().map(op_to_json).collect())
}

pub fn ops_from_json(v: &Value) -> Option<Vec<Op>> {
    v.as_array()?.iter().map(op_from_json).collect()
}
