//! MEMFN: one call of a pure `mem` / validator function on guarded memory.
//!
//! This is *not* a simulation of any history: these functions are pure
//! functions of their arguments (C14-C16 are not applicable to this
//! technique, and their results are not judged here). It is included in the
//! C06 check only because C06's statement names *every* public function:
//! placement (start offsets 0..15, lengths not multiples of 16), the bytes
//! placed behind the source, canary bands, the unsafe-precondition checks of
//! the assertion-carrying build and ASan are the simulated-memory side of the
//! machinery, and they cost nothing to point at these functions as well.
//! Oracles: no panic within the documented preconditions, nothing written
//! outside the destination, returned indices / counts within bounds.

use crate::dec::{viol, Viol};
use crate::rng::Rng;
use crate::sink::*;
use encoding_rs::mem;
use encoding_rs::Encoding;

pub const FUNCS: [&str; 30] = [
    "is_ascii",
    "is_utf8_latin1",
    "is_utf8_bidi",
    "check_utf8_for_latin1_and_bidi",
    "utf8_latin1_up_to",
    "utf8_valid_up_to",
    "ascii_valid_up_to",
    "iso_2022_jp_ascii_valid_up_to",
    "is_str_latin1",
    "is_str_bidi",
    "check_str_for_latin1_and_bidi",
    "str_latin1_up_to",
    "convert_str_to_utf16",
    "convert_utf8_to_utf16",
    "convert_utf8_to_utf16_without_replacement",
    "convert_latin1_to_utf16",
    "convert_latin1_to_utf8",
    "copy_ascii_to_ascii",
    "copy_ascii_to_basic_latin",
    "decode_latin1",
    "is_basic_latin",
    "is_utf16_latin1",
    "is_utf16_bidi",
    "check_utf16_for_latin1_and_bidi",
    "utf16_valid_up_to",
    "ensure_utf16_validity",
    "convert_utf16_to_utf8",
    "copy_basic_latin_to_ascii",
    "convert_utf16_to_str",
    "is_char_bidi_and_unit_bidi",
];

#[derive(Clone, Debug)]
pub struct MemFnSpec {
    pub func: String,
    /// source units: bytes (as u16) for the byte functions, UTF-16 units otherwise
    pub src: Vec<u16>,
    pub src_off: u8,
    pub dst_off: u8,
    /// extra destination room beyond the documented sufficient size
    pub slack: u8,
}

const CHARS: &[u32] = &[
    0x61, 0x20, 0x7F, 0x80, 0xE9, 0xFF, 0x100, 0x58F, 0x590, 0x5D0, 0x5BF, 0x600, 0x639, 0x7FF, 0x800, 0x8A0, 0x8FF, 0x900, 0x200F, 0x202B, 0x202E, 0x2067, 0x20AC, 0xD7FF, 0xE000, 0xFB1D, 0xFB4F,
    0xFDFF, 0xFE70, 0xFEFE, 0xFEFF, 0xFFFD, 0x10000, 0x10800, 0x10FFF, 0x1E800, 0x1EFFF, 0x1F4A9, 0x10FFFF,
];

pub fn is_u16_func(f: &str) -> bool {
    matches!(f, "is_basic_latin" | "is_utf16_latin1" | "is_utf16_bidi" | "check_utf16_for_latin1_and_bidi" | "utf16_valid_up_to" | "ensure_utf16_validity" | "convert_utf16_to_utf8" | "copy_basic_latin_to_ascii" | "convert_utf16_to_str" | "is_char_bidi_and_unit_bidi")
}

fn needs_str(f: &str) -> bool {
    matches!(f, "is_str_latin1" | "is_str_bidi" | "check_str_for_latin1_and_bidi" | "str_latin1_up_to" | "convert_str_to_utf16")
}

const LATIN1: &[u32] = &[0x61, 0x20, 0x80, 0xA0, 0xBF, 0xC0, 0xE9, 0xFF];
const LTR: &[u32] = &[0x61, 0x100, 0x58F, 0x800, 0x900, 0x2000, 0x20AC, 0x4E00, 0xD7FF, 0xE000, 0xFB00, 0xFB50 - 1, 0xFFFD, 0x10000, 0x107FF, 0x11000, 0x1E7FF, 0x1F000, 0x1F4A9, 0x10FFFF];

pub fn draw(rng: &mut Rng, run_index: u64) -> MemFnSpec {
    let func = FUNCS[(run_index / 16) as usize % FUNCS.len()].to_string();
    // alphabet of the run: everything / Latin1 only / left-to-right only; the
    // restricted ones get (at most) one character of the full alphabet planted,
    // so that the answer hangs on a single unit at a PRNG-chosen position
    let mode = rng.below(3);
    let alphabet: &[u32] = match mode {
        0 => CHARS,
        1 => LATIN1,
        _ => LTR,
    };
    let mut plant_at: Option<usize> = None;
    let mut src: Vec<u16> = Vec::new();
    if is_u16_func(&func) {
        let n = rng.pick(&[0usize, 1, 3, 7, 8, 9, 15, 16, 17, 31, 33, 47, 64, 65, 100]);
        let ascii = rng.pick(&[0usize, 50, 90, 98]);
        while src.len() < n {
            let u: u16 = if rng.below(100) < ascii {
                rng.pick(&[0x61u16, 0x20, 0x7F, 0x00])
            } else if mode == 0 && rng.chance(1, 4) {
                rng.pick(&[0xD800u16, 0xDBFF, 0xDC00, 0xDFFF, 0xD83D, 0xDCA9, 0xD802, 0xD83A, 0xD803])
            } else {
                let c = rng.pick(alphabet);
                if c > 0xFFFF {
                    src.push((0xD7C0 + (c >> 10)) as u16);
                    (0xDC00 + (c & 0x3FF)) as u16
                } else {
                    c as u16
                }
            };
            src.push(u);
        }
        if mode != 0 && !src.is_empty() && rng.chance(2, 3) {
            let at = rng.below(src.len());
            if !(0xD800..0xE000).contains(&src[at]) {
                src[at] = rng.pick(CHARS).min(0xFFFF) as u16;
            }
        }
    } else {
        // UTF-8-ish bytes: ASCII runs, well-formed characters, truncated ones,
        // stray continuation / lead bytes; the last byte sweeps all 256 values
        let n = rng.pick(&[0usize, 1, 2, 3, 5, 8, 15, 16, 17, 20, 31, 33, 47, 63, 64, 65, 80, 100]);
        let ascii = rng.pick(&[0usize, 50, 90, 98]);
        let mut b: Vec<u8> = Vec::new();
        while b.len() < n {
            if rng.below(100) < ascii {
                b.push(rng.pick(&[b'a', b' ', 0x7F, 0x00, 0x1B, 0x0E]));
            } else {
                let plant = mode != 0 && plant_at.is_none() && rng.chance(1, 8);
                if plant {
                    plant_at = Some(b.len());
                }
                let c = char::from_u32(rng.pick(if plant { CHARS } else { alphabet })).unwrap_or('a');
                let mut buf = [0u8; 4];
                let e = c.encode_utf8(&mut buf).as_bytes();
                if mode != 0 {
                    b.extend_from_slice(e);
                } else if !needs_str(&func) && rng.chance(1, 5) && e.len() > 1 {
                    let k = rng.range(1, e.len() - 1);
                    b.extend_from_slice(&e[..k]);
                } else if !needs_str(&func) && rng.chance(1, 12) {
                    b.push(rng.pick(&[0x80u8, 0xBF, 0xC0, 0xC1, 0xF5, 0xFF, 0xD6, 0xD7, 0xD8, 0xE0, 0xEF, 0xF0, 0xF4]));
                } else {
                    b.extend_from_slice(e);
                }
            }
        }
        // the slice may end inside a character: a proper prefix of a multi-byte
        // sequence (any lead, ED and F4 included) as the very last bytes
        if !needs_str(&func) && rng.chance(1, 4) {
            let c = char::from_u32(rng.pick(&[0x80u32, 0x7FF, 0x800, 0xD000, 0xD7FF, 0xE000, 0xFB1D, 0xFFFD, 0x10000, 0x3FFFF, 0x40000, 0x10FFFF, 0x5D0, 0x639])).unwrap_or('a');
            let mut buf = [0u8; 4];
            let e = c.encode_utf8(&mut buf).as_bytes();
            let k = rng.range(1, e.len() - 1);
            b.extend_from_slice(&e[..k]);
        } else if mode == 0 && !needs_str(&func) && !b.is_empty() && rng.chance(1, 2) {
            let l = b.len();
            b[l - 1] = (run_index % 256) as u8;
        }
        if needs_str(&func) {
            // must be valid UTF-8: cut back to the last character boundary of what was built
            let mut l = b.len();
            while l > 0 && std::str::from_utf8(&b[..l]).is_err() {
                l -= 1;
            }
            b.truncate(l);
        }
        if matches!(func.as_str(), "copy_ascii_to_ascii" | "copy_ascii_to_basic_latin" | "convert_latin1_to_utf16" | "convert_latin1_to_utf8" | "decode_latin1") && rng.chance(1, 2) {
            // Latin1 bytes are arbitrary bytes
            for x in b.iter_mut() {
                if *x >= 0x80 && rng.chance(1, 2) {
                    *x = rng.below(256) as u8;
                }
            }
        }
        src = b.iter().map(|&x| x as u16).collect();
    }
    MemFnSpec { func, src, src_off: rng.below(16) as u8, dst_off: rng.below(16) as u8, slack: rng.pick(&[0u8, 0, 0, 1, 5, 16]) }
}

pub fn execute(spec: &MemFnSpec) -> (Vec<Viol>, u64) {
    let mut v: Vec<Viol> = Vec::new();
    let f = spec.func.as_str();
    let n = spec.src.len();
    let bytes: Vec<u8> = spec.src.iter().map(|&u| u as u8).collect();
    let g8 = Guard8::from(&bytes, spec.src_off as usize);
    let mut g16 = Guard16::from(&spec.src, spec.src_off as usize);
    let s8 = g8.slice();
    let slack = spec.slack as usize;
    // destinations are allocated at exactly the size handed to the function,
    // so the canary bands start right behind them
    let (l8, l16) = match f {
        "convert_str_to_utf16" | "convert_utf8_to_utf16_without_replacement" | "convert_latin1_to_utf16" | "copy_ascii_to_basic_latin" => (0, n + slack),
        "convert_utf8_to_utf16" => (0, n + 1 + slack),
        "convert_latin1_to_utf8" => (2 * n + slack, 0),
        "copy_ascii_to_ascii" | "copy_basic_latin_to_ascii" => (n + slack, 0),
        "convert_utf16_to_utf8" | "convert_utf16_to_str" => (3 * n + slack, 0),
        _ => (0, 0),
    };
    let mut d8 = Guard8::new(l8, spec.dst_off as usize);
    let mut d16 = Guard16::new(l16, spec.dst_off as usize);
    for b in d8.slice_mut().iter_mut() {
        *b = b'x';
    }
    // what the call returned: an index / count with its upper bound, a flag
    // value, and how much of each destination is defined output
    #[derive(Default)]
    struct R {
        idx: Option<(usize, usize)>,
        flag: u64,
        out8: usize,
        out16: usize,
        text: String,
    }
    fn idx(i: usize, bound: usize) -> R {
        R { idx: Some((i, bound)), ..R::default() }
    }
    fn flag(v: u64) -> R {
        R { flag: v + 1, ..R::default() }
    }
    fn lb(v: mem::Latin1Bidi) -> R {
        flag(match v {
            mem::Latin1Bidi::Latin1 => 0,
            mem::Latin1Bidi::LeftToRight => 1,
            mem::Latin1Bidi::Bidi => 2,
        })
    }
    let r = guard(|| -> Option<R> {
        Some(match f {
            "is_ascii" => flag(mem::is_ascii(s8) as u64),
            "is_utf8_latin1" => flag(mem::is_utf8_latin1(s8) as u64),
            "is_utf8_bidi" => flag(mem::is_utf8_bidi(s8) as u64),
            "check_utf8_for_latin1_and_bidi" => lb(mem::check_utf8_for_latin1_and_bidi(s8)),
            "utf8_latin1_up_to" => idx(mem::utf8_latin1_up_to(s8), n),
            "utf8_valid_up_to" => idx(Encoding::utf8_valid_up_to(s8), n),
            "ascii_valid_up_to" => idx(Encoding::ascii_valid_up_to(s8), n),
            "iso_2022_jp_ascii_valid_up_to" => idx(Encoding::iso_2022_jp_ascii_valid_up_to(s8), n),
            "is_str_latin1" => flag(mem::is_str_latin1(std::str::from_utf8(s8).ok()?) as u64),
            "is_str_bidi" => flag(mem::is_str_bidi(std::str::from_utf8(s8).ok()?) as u64),
            "check_str_for_latin1_and_bidi" => lb(mem::check_str_for_latin1_and_bidi(std::str::from_utf8(s8).ok()?)),
            "str_latin1_up_to" => idx(mem::str_latin1_up_to(std::str::from_utf8(s8).ok()?), n),
            "convert_str_to_utf16" => {
                let w = mem::convert_str_to_utf16(std::str::from_utf8(s8).ok()?, d16.slice_mut());
                R { out16: w, ..idx(w, l16) }
            }
            "convert_utf8_to_utf16" => {
                let w = mem::convert_utf8_to_utf16(s8, d16.slice_mut());
                R { out16: w, ..idx(w, l16) }
            }
            "convert_utf8_to_utf16_without_replacement" => match mem::convert_utf8_to_utf16_without_replacement(s8, d16.slice_mut()) {
                Some(w) => R { out16: w, ..idx(w, l16) },
                None => flag(7),
            },
            "convert_latin1_to_utf16" => {
                mem::convert_latin1_to_utf16(s8, d16.slice_mut());
                R { out16: n, ..R::default() }
            }
            "convert_latin1_to_utf8" => {
                let w = mem::convert_latin1_to_utf8(s8, d8.slice_mut());
                R { out8: w, ..idx(w, l8) }
            }
            "copy_ascii_to_ascii" => {
                let w = mem::copy_ascii_to_ascii(s8, d8.slice_mut());
                R { out8: w, ..idx(w, n) }
            }
            "copy_ascii_to_basic_latin" => {
                let w = mem::copy_ascii_to_basic_latin(s8, d16.slice_mut());
                R { out16: w, ..idx(w, n) }
            }
            "decode_latin1" => {
                let c = mem::decode_latin1(s8);
                R { text: c.to_string(), ..idx(c.chars().count(), n) }
            }
            "is_basic_latin" => flag(mem::is_basic_latin(g16.slice()) as u64),
            "is_utf16_latin1" => flag(mem::is_utf16_latin1(g16.slice()) as u64),
            "is_utf16_bidi" => flag(mem::is_utf16_bidi(g16.slice()) as u64),
            "check_utf16_for_latin1_and_bidi" => lb(mem::check_utf16_for_latin1_and_bidi(g16.slice())),
            "utf16_valid_up_to" => idx(mem::utf16_valid_up_to(g16.slice()), n),
            "ensure_utf16_validity" => {
                mem::ensure_utf16_validity(g16.slice_mut());
                R::default()
            }
            "convert_utf16_to_utf8" => {
                let w = mem::convert_utf16_to_utf8(g16.slice(), d8.slice_mut());
                R { out8: w, ..idx(w, l8) }
            }
            "copy_basic_latin_to_ascii" => {
                let w = mem::copy_basic_latin_to_ascii(g16.slice(), d8.slice_mut());
                R { out8: w, ..idx(w, n) }
            }
            "convert_utf16_to_str" => {
                let d = std::str::from_utf8_mut(d8.slice_mut()).ok()?;
                let w = mem::convert_utf16_to_str(g16.slice(), d);
                R { out8: w, ..idx(w, l8) }
            }
            _ => {
                let mut acc = 0u64;
                for &u in g16.slice() {
                    acc = acc.wrapping_mul(3).wrapping_add(mem::is_utf16_code_unit_bidi(u) as u64);
                    if let Some(c) = char::from_u32(u as u32) {
                        acc = acc.wrapping_mul(3).wrapping_add(mem::is_char_bidi(c) as u64);
                    }
                }
                flag(acc)
            }
        })
    });
    // transcript of the defined results (compared across builds by C17)
    let mut t = crate::rng::Digest::new();
    t.bytes(f.as_bytes());
    t.usize(n);
    if let Ok(Some(r)) = &r {
        t.u64(r.flag);
        if let Some((i, _)) = r.idx {
            t.usize(i);
        }
        t.bytes(&d8.slice()[..r.out8.min(l8)]);
        for &u in d16.slice()[..r.out16.min(l16)].iter() {
            t.u64(u as u64);
        }
        t.bytes(r.text.as_bytes());
        if f == "ensure_utf16_validity" {
            for &u in g16.slice() {
                t.u64(u as u64);
            }
        }
    }
    match r {
        Err(_) => v.push(viol("C06", "panic-in-contract", format!("mem/validator function {} panicked on a {}-unit source within its documented preconditions: {}", f, n, take_panic()))),
        Ok(Some(R { idx: Some((got, bound)), .. })) => {
            if got > bound {
                v.push(viol("C06", "result-out-of-bounds", format!("{} returned {} for a bound of {}", f, got, bound)));
            }
        }
        Ok(_) => {}
    }
    if !d8.intact() || !d16.intact() || !g16.src_intact() {
        v.push(viol("C06", "canary", format!("{} wrote outside its destination", f)));
    }
    (v, t.finish())
}
