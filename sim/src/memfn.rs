//! MEMFN: one call of a pure `mem` / validator function on guarded memory.
//!
//! This is *not* a simulation of any history: these functions are pure
//! functions of their arguments (C14-C16 are not applicable to this
//! technique, and their results are not judged here). It is included in the
//! C06 check only because C06's statement names *every* public function:
//! placement (start offsets 0..15, lengths not multiples of 16), the bytes
//! placed behind the source, canary bands, the unsafe-precondition checks of
//! the assertion-carrying build and ASan are the simulated-memory side of the
//! machinery, and they cost nothing to point at these functions as well.
//! Oracles: no panic within the documented preconditions, nothing written
//! outside the destination, returned indices / counts within bounds.

use crate::dec::{viol, Viol};
use crate::rng::Rng;
use crate::sink::*;
use encoding_rs::mem;
use encoding_rs::Encoding;

pub const FUNCS: [&str; 30] = [
    "is_ascii",
    "is_utf8_latin1",
    "is_utf8_bidi",
    "check_utf8_for_latin1_and_bidi",
    "utf8_latin1_up_to",
    "utf8_valid_up_to",
    "ascii_valid_up_to",
    "iso_2022_jp_ascii_valid_up_to",
    "is_str_latin1",
    "is_str_bidi",
    "check_str_for_latin1_and_bidi",
    "str_latin1_up_to",
    "convert_str_to_utf16",
    "convert_utf8_to_utf16",
    "convert_utf8_to_utf16_without_replacement",
    "convert_latin1_to_utf16",
    "convert_latin1_to_utf8",
    "copy_ascii_to_ascii",
    "copy_ascii_to_basic_latin",
    "decode_latin1",
    "is_basic_latin",
    "is_utf16_latin1",
    "is_utf16_bidi",
    "check_utf16_for_latin1_and_bidi",
    "utf16_valid_up_to",
    "ensure_utf16_validity",
    "convert_utf16_to_utf8",
    "copy_basic_latin_to_ascii",
    "convert_utf16_to_str",
    "is_char_bidi_and_unit_bidi",
];

#[derive(Clone, Debug)]
pub struct MemFnSpec {
    pub func: String,
    /// source units: bytes (as u16) for the byte functions, UTF-16 units otherwise
    pub src: Vec<u16>,
    pub src_off: u8,
    pub dst_off: u8,
    /// extra destination room beyond the documented sufficient size
    pub slack: u8,
}

const CHARS: &[u32] = &[
    0x61, 0x20, 0x7F, 0x80, 0xE9, 0xFF, 0x100, 0x58F, 0x590, 0x5D0, 0x5BF, 0x600, 0x639, 0x7FF, 0x800, 0x8A0, 0x8FF, 0x900, 0x200F, 0x202B, 0x202E, 0x2067, 0x20AC, 0xD7FF, 0xE000, 0xFB1D, 0xFB4F,
    0xFDFF, 0xFE70, 0xFEFE, 0xFEFF, 0xFFFD, 0x10000, 0x10800, 0x10FFF, 0x1E800, 0x1EFFF, 0x1F4A9, 0x10FFFF,
];

pub fn is_u16_func(f: &str) -> bool {
    matches!(f, "is_basic_latin" | "is_utf16_latin1" | "is_utf16_bidi" | "check_utf16_for_latin1_and_bidi" | "utf16_valid_up_to" | "ensure_utf16_validity" | "convert_utf16_to_utf8" | "copy_basic_latin_to_ascii" | "convert_utf16_to_str" | "is_char_bidi_and_unit_bidi")
}

fn needs_str(f: &str) -> bool {
    matches!(f, "is_str_latin1" | "is_str_bidi" | "check_str_for_latin1_and_bidi" | "str_latin1_up_to" | "convert_str_to_utf16")
}

pub fn draw(rng: &mut Rng, run_index: u64) -> MemFnSpec {
    let func = FUNCS[(run_index / 16) as usize % FUNCS.len()].to_string();
    let mut src: Vec<u16> = Vec::new();
    if is_u16_func(&func) {
        let n = rng.pick(&[0usize, 1, 3, 7, 8, 9, 15, 16, 17, 31, 33, 47, 64, 65, 100]);
        let ascii = rng.pick(&[0usize, 50, 90, 98]);
        while src.len() < n {
            let u: u16 = if rng.below(100) < ascii {
                rng.pick(&[0x61u16, 0x20, 0x7F, 0x00])
            } else if rng.chance(1, 4) {
                rng.pick(&[0xD800u16, 0xDBFF, 0xDC00, 0xDFFF, 0xD83D, 0xDCA9, 0xD802, 0xD83A, 0xD803])
            } else {
                rng.pick(CHARS).min(0xFFFF) as u16
            };
            src.push(u);
        }
    } else {
        // UTF-8-ish bytes: ASCII runs, well-formed characters, truncated ones,
        // stray continuation / lead bytes; the last byte sweeps all 256 values
        let n = rng.pick(&[0usize, 1, 2, 3, 5, 8, 15, 16, 17, 20, 31, 33, 47, 63, 64, 65, 80, 100]);
        let ascii = rng.pick(&[0usize, 50, 90, 98]);
        let mut b: Vec<u8> = Vec::new();
        while b.len() < n {
            if rng.below(100) < ascii {
                b.push(rng.pick(&[b'a', b' ', 0x7F, 0x00, 0x1B, 0x0E]));
            } else {
                let c = char::from_u32(rng.pick(CHARS)).unwrap_or('a');
                let mut buf = [0u8; 4];
                let e = c.encode_utf8(&mut buf).as_bytes();
                if !needs_str(&func) && rng.chance(1, 5) && e.len() > 1 {
                    let k = rng.range(1, e.len() - 1);
                    b.extend_from_slice(&e[..k]);
                } else if !needs_str(&func) && rng.chance(1, 12) {
                    b.push(rng.pick(&[0x80u8, 0xBF, 0xC0, 0xC1, 0xF5, 0xFF, 0xD6, 0xD7, 0xD8, 0xE0, 0xEF, 0xF0, 0xF4]));
                } else {
                    b.extend_from_slice(e);
                }
            }
        }
        if !needs_str(&func) && !b.is_empty() && rng.chance(1, 2) {
            let l = b.len();
            b[l - 1] = (run_index % 256) as u8;
        }
        if needs_str(&func) {
            // must be valid UTF-8: cut back to the last character boundary of what was built
            let mut l = b.len();
            while l > 0 && std::str::from_utf8(&b[..l]).is_err() {
                l -= 1;
            }
            b.truncate(l);
        }
        if matches!(func.as_str(), "copy_ascii_to_ascii" | "copy_ascii_to_basic_latin" | "convert_latin1_to_utf16" | "convert_latin1_to_utf8" | "decode_latin1") && rng.chance(1, 2) {
            // Latin1 bytes are arbitrary bytes
            for x in b.iter_mut() {
                if *x >= 0x80 && rng.chance(1, 2) {
                    *x = rng.below(256) as u8;
                }
            }
        }
        src = b.iter().map(|&x| x as u16).collect();
    }
    MemFnSpec { func, src, src_off: rng.below(16) as u8, dst_off: rng.below(16) as u8, slack: rng.pick(&[0u8, 0, 0, 1, 5, 16]) }
}

pub fn execute(spec: &MemFnSpec) -> Vec<Viol> {
    let mut v: Vec<Viol> = Vec::new();
    let f = spec.func.as_str();
    let n = spec.src.len();
    let bytes: Vec<u8> = spec.src.iter().map(|&u| u as u8).collect();
    let g8 = Guard8::from(&bytes, spec.src_off as usize);
    let mut g16 = Guard16::from(&spec.src, spec.src_off as usize);
    let s8 = g8.slice();
    let slack = spec.slack as usize;
    // destinations are allocated at exactly the size handed to the function,
    // so the canary bands start right behind them
    let (l8, l16) = match f {
        "convert_str_to_utf16" | "convert_utf8_to_utf16_without_replacement" | "convert_latin1_to_utf16" | "copy_ascii_to_basic_latin" => (0, n + slack),
        "convert_utf8_to_utf16" => (0, n + 1 + slack),
        "convert_latin1_to_utf8" => (2 * n + slack, 0),
        "copy_ascii_to_ascii" | "copy_basic_latin_to_ascii" => (n + slack, 0),
        "convert_utf16_to_utf8" | "convert_utf16_to_str" => (3 * n + slack, 0),
        _ => (0, 0),
    };
    let mut d8 = Guard8::new(l8, spec.dst_off as usize);
    let mut d16 = Guard16::new(l16, spec.dst_off as usize);
    for b in d8.slice_mut().iter_mut() {
        *b = b'x';
    }
    // (index-like result, upper bound) or None
    let r = guard(|| -> Option<(usize, usize)> {
        match f {
            "is_ascii" => {
                mem::is_ascii(s8);
                None
            }
            "is_utf8_latin1" => {
                mem::is_utf8_latin1(s8);
                None
            }
            "is_utf8_bidi" => {
                mem::is_utf8_bidi(s8);
                None
            }
            "check_utf8_for_latin1_and_bidi" => {
                let _ = mem::check_utf8_for_latin1_and_bidi(s8);
                None
            }
            "utf8_latin1_up_to" => Some((mem::utf8_latin1_up_to(s8), n)),
            "utf8_valid_up_to" => Some((Encoding::utf8_valid_up_to(s8), n)),
            "ascii_valid_up_to" => Some((Encoding::ascii_valid_up_to(s8), n)),
            "iso_2022_jp_ascii_valid_up_to" => Some((Encoding::iso_2022_jp_ascii_valid_up_to(s8), n)),
            "is_str_latin1" => {
                mem::is_str_latin1(std::str::from_utf8(s8).ok()?);
                None
            }
            "is_str_bidi" => {
                mem::is_str_bidi(std::str::from_utf8(s8).ok()?);
                None
            }
            "check_str_for_latin1_and_bidi" => {
                let _ = mem::check_str_for_latin1_and_bidi(std::str::from_utf8(s8).ok()?);
                None
            }
            "str_latin1_up_to" => Some((mem::str_latin1_up_to(std::str::from_utf8(s8).ok()?), n)),
            "convert_str_to_utf16" => {
                let d = d16.slice_mut();
                Some((mem::convert_str_to_utf16(std::str::from_utf8(s8).ok()?, d), n + slack))
            }
            "convert_utf8_to_utf16" => {
                let d = d16.slice_mut();
                Some((mem::convert_utf8_to_utf16(s8, d), n + 1 + slack))
            }
            "convert_utf8_to_utf16_without_replacement" => {
                let d = d16.slice_mut();
                mem::convert_utf8_to_utf16_without_replacement(s8, d).map(|w| (w, n + slack))
            }
            "convert_latin1_to_utf16" => {
                let d = d16.slice_mut();
                mem::convert_latin1_to_utf16(s8, d);
                None
            }
            "convert_latin1_to_utf8" => {
                let d = d8.slice_mut();
                Some((mem::convert_latin1_to_utf8(s8, d), 2 * n + slack))
            }
            "copy_ascii_to_ascii" => {
                let d = d8.slice_mut();
                Some((mem::copy_ascii_to_ascii(s8, d), n))
            }
            "copy_ascii_to_basic_latin" => {
                let d = d16.slice_mut();
                Some((mem::copy_ascii_to_basic_latin(s8, d), n))
            }
            "decode_latin1" => {
                let c = mem::decode_latin1(s8);
                Some((c.chars().count(), n))
            }
            "is_basic_latin" => {
                mem::is_basic_latin(g16.slice());
                None
            }
            "is_utf16_latin1" => {
                mem::is_utf16_latin1(g16.slice());
                None
            }
            "is_utf16_bidi" => {
                mem::is_utf16_bidi(g16.slice());
                None
            }
            "check_utf16_for_latin1_and_bidi" => {
                let _ = mem::check_utf16_for_latin1_and_bidi(g16.slice());
                None
            }
            "utf16_valid_up_to" => Some((mem::utf16_valid_up_to(g16.slice()), n)),
            "ensure_utf16_validity" => {
                mem::ensure_utf16_validity(g16.slice_mut());
                None
            }
            "convert_utf16_to_utf8" => {
                let d = d8.slice_mut();
                Some((mem::convert_utf16_to_utf8(g16.slice(), d), 3 * n + slack))
            }
            "copy_basic_latin_to_ascii" => {
                let d = d8.slice_mut();
                Some((mem::copy_basic_latin_to_ascii(g16.slice(), d), n))
            }
            "convert_utf16_to_str" => {
                let d = d8.slice_mut();
                let s = std::str::from_utf8_mut(d).ok()?;
                Some((mem::convert_utf16_to_str(g16.slice(), s), 3 * n + slack))
            }
            _ => {
                for &u in g16.slice() {
                    mem::is_utf16_code_unit_bidi(u);
                    if let Some(c) = char::from_u32(u as u32) {
                        mem::is_char_bidi(c);
                    }
                }
                None
            }
        }
    });
    match r {
        Err(_) => v.push(viol("C06", "panic-in-contract", format!("mem/validator function {} panicked on a {}-unit source within its documented preconditions: {}", f, n, take_panic()))),
        Ok(Some((got, bound))) => {
            if got > bound {
                v.push(viol("C06", "result-out-of-bounds", format!("{} returned {} for a bound of {}", f, got, bound)));
            }
        }
        Ok(None) => {}
    }
    if !d8.intact() || !d16.intact() || !g16.src_intact() {
        v.push(viol("C06", "canary", format!("{} wrote outside its destination", f)));
    }
    v
}
