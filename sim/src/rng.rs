//! The only source of randomness in a run. Everything a run decides is drawn
//! from one `Rng` that is a pure function of (VERIF_SEED, scenario id, run
//! index); logging and evidence collection never draw from it.

#[derive(Clone, Debug)]
pub struct Rng {
    s: u64,
}

#[inline]
pub fn mix64(mut z: u64) -> u64 {
    z = z.wrapping_add(0x9E37_79B9_7F4A_7C15);
    z = (z ^ (z >> 30)).wrapping_mul(0xBF58_476D_1CE4_E5B9);
    z = (z ^ (z >> 27)).wrapping_mul(0x94D0_49BB_1331_11EB);
    z ^ (z >> 31)
}

impl Rng {
    pub fn new(seed: u64) -> Rng {
        Rng { s: mix64(seed ^ 0x5851_F42D_4C95_7F2D) }
    }

    /// PRNG stream of run `run` of scenario `scenario` under `verif_seed`.
    /// Independent of which worker thread executes the run.
    pub fn for_run(verif_seed: u64, scenario: u64, run: u64) -> Rng {
        let a = mix64(verif_seed);
        let b = mix64(a ^ scenario.wrapping_mul(0xA24B_AED4_963E_E407));
        let c = mix64(b ^ run.wrapping_mul(0x9FB2_1C65_1E98_DF25));
        Rng { s: c }
    }

    #[inline]
    pub fn next(&mut self) -> u64 {
        self.s = self.s.wrapping_add(0x9E37_79B9_7F4A_7C15);
        let mut z = self.s;
        z = (z ^ (z >> 30)).wrapping_mul(0xBF58_476D_1CE4_E5B9);
        z = (z ^ (z >> 27)).wrapping_mul(0x94D0_49BB_1331_11EB);
        z ^ (z >> 31)
    }

    /// Uniform in `0..n` (n > 0).
    #[inline]
    pub fn below(&mut self, n: usize) -> usize {
        debug_assert!(n > 0);
        ((self.next() >> 11) % (n as u64)) as usize
    }

    /// Uniform in `lo..=hi`.
    #[inline]
    pub fn range(&mut self, lo: usize, hi: usize) -> usize {
        lo + self.below(hi - lo + 1)
    }

    /// True with probability num/den.
    #[inline]
    pub fn chance(&mut self, num: u32, den: u32) -> bool {
        (self.below(den as usize) as u32) < num
    }

    #[inline]
    pub fn pick<T: Copy>(&mut self, xs: &[T]) -> T {
        xs[self.below(xs.len())]
    }

    /// Index drawn according to integer weights (at least one weight > 0).
    pub fn weighted(&mut self, w: &[u32]) -> usize {
        let total: u32 = w.iter().sum();
        let mut x = self.below(total as usize) as u32;
        for (i, &wi) in w.iter().enumerate() {
            if x < wi {
                return i;
            }
            x -= wi;
        }
        w.len() - 1
    }
}

/// FNV-1a style running digest used for transcripts and history signatures.
#[derive(Clone, Copy, Debug)]
pub struct Digest(pub u64);

impl Digest {
    pub fn new() -> Digest {
        Digest(0xcbf2_9ce4_8422_2325)
    }
    #[inline]
    pub fn byte(&mut self, b: u8) {
        self.0 ^= b as u64;
        self.0 = self.0.wrapping_mul(0x0000_0100_0000_01B3);
    }
    #[inline]
    pub fn u64(&mut self, v: u64) {
        for i in 0..8 {
            self.byte((v >> (8 * i)) as u8);
        }
    }
    #[inline]
    pub fn usize(&mut self, v: usize) {
        self.u64(v as u64)
    }
    pub fn bytes(&mut self, bs: &[u8]) {
        self.usize(bs.len());
        for &b in bs {
            self.byte(b);
        }
    }
    pub fn u16s(&mut self, us: &[u16]) {
        self.usize(us.len());
        for &u in us {
            self.byte(u as u8);
            self.byte((u >> 8) as u8);
        }
    }
    pub fn finish(&self) -> u64 {
        mix64(self.0)
    }
}
