//! Simulated memory: source and destination buffers placed at PRNG-chosen
//! offsets inside exact-size heap blocks with canary bands, pre-filled with
//! PRNG-chosen garbage. Under ASan / Miri the block ends exactly where the
//! slice ends (`tail_canary = false`), so an overrun is caught by the
//! substrate rather than by a canary.

use std::cell::RefCell;
use std::sync::atomic::{AtomicBool, Ordering};

pub const FRONT: usize = 16;
/// Tail canary band behind a *destination* (wide, so that an overrun by the
/// code under test lands in the band - and is reported - instead of in the
/// allocator's metadata); sources get a short band.
pub const TAIL: usize = 512;
pub const SRC_TAIL: usize = 32;
const CANARY: u8 = 0xC7;
const CANARY16: u16 = 0xC7C7;

static TAIL_CANARY: AtomicBool = AtomicBool::new(true);

pub fn set_tail_canary(on: bool) {
    TAIL_CANARY.store(on, Ordering::Relaxed);
}
pub fn tail_canary() -> bool {
    TAIL_CANARY.load(Ordering::Relaxed)
}

pub struct Guard8 {
    buf: Vec<u8>,
    start: usize,
    len: usize,
}

impl Guard8 {
    pub fn new(len: usize, off: usize) -> Guard8 {
        let tail = if tail_canary() { TAIL } else { 0 };
        let start = FRONT + off;
        let buf = vec![CANARY; start + len + tail];
        Guard8 { buf, start, len }
    }
    /// A *source* buffer. What lies behind it is chosen to make an over-read
    /// visible and deterministic: continuation bytes (0xA0), which complete an
    /// unfinished UTF-8 / multi-byte sequence instead of being rejected.
    pub fn from(src: &[u8], off: usize) -> Guard8 {
        let tail = if tail_canary() { SRC_TAIL } else { 0 };
        let start = FRONT + off;
        let mut buf = vec![CANARY; start + src.len() + tail];
        buf[start..start + src.len()].copy_from_slice(src);
        for b in buf[start + src.len()..].iter_mut() {
            *b = 0xA0;
        }
        Guard8 { buf, start, len: src.len() }
    }
    #[inline]
    pub fn slice(&self) -> &[u8] {
        &self.buf[self.start..self.start + self.len]
    }
    #[inline]
    pub fn slice_mut(&mut self) -> &mut [u8] {
        let (s, l) = (self.start, self.len);
        &mut self.buf[s..s + l]
    }
    pub fn intact(&self) -> bool {
        self.buf[..self.start].iter().all(|&b| b == CANARY)
            && self.buf[self.start + self.len..].iter().all(|&b| b == CANARY)
    }
}

pub struct Guard16 {
    buf: Vec<u16>,
    start: usize,
    len: usize,
}

impl Guard16 {
    pub fn new(len: usize, off: usize) -> Guard16 {
        let tail = if tail_canary() { TAIL } else { 0 };
        let start = FRONT + off;
        let buf = vec![CANARY16; start + len + tail];
        Guard16 { buf, start, len }
    }
    /// A *source* buffer; low surrogates behind it (they would complete a
    /// pair that an over-reading converter looks for).
    pub fn from(src: &[u16], off: usize) -> Guard16 {
        let tail = if tail_canary() { SRC_TAIL } else { 0 };
        let start = FRONT + off;
        let mut buf = vec![CANARY16; start + src.len() + tail];
        buf[start..start + src.len()].copy_from_slice(src);
        for b in buf[start + src.len()..].iter_mut() {
            *b = 0xDCA0;
        }
        Guard16 { buf, start, len: src.len() }
    }
    #[inline]
    pub fn slice(&self) -> &[u16] {
        &self.buf[self.start..self.start + self.len]
    }
    #[inline]
    pub fn slice_mut(&mut self) -> &mut [u16] {
        let (s, l) = (self.start, self.len);
        &mut self.buf[s..s + l]
    }
    pub fn intact(&self) -> bool {
        self.buf[..self.start].iter().all(|&b| b == CANARY16)
            && self.buf[self.start + self.len..].iter().all(|&b| b == CANARY16)
    }
    /// For a buffer made by `from` that a function may modify in place.
    pub fn src_intact(&self) -> bool {
        self.buf[..self.start].iter().all(|&b| b == CANARY16)
            && self.buf[self.start + self.len..].iter().all(|&b| b == 0xDCA0)
    }
}

/// Garbage bytes for a plain byte sink. `fill` 0..=3 are constant patterns,
/// 4 = stale output of earlier calls (cyclically repeated).
pub fn fill_bytes(dst: &mut [u8], fill: u8, stale: &[u8]) {
    match fill {
        0 => dst.iter_mut().for_each(|b| *b = 0x00),
        1 => dst.iter_mut().for_each(|b| *b = 0xFF),
        2 => dst.iter_mut().for_each(|b| *b = 0xA5),
        3 => dst.iter_mut().for_each(|b| *b = 0x80),
        _ => {
            if stale.is_empty() {
                dst.iter_mut().for_each(|b| *b = 0xBF);
            } else {
                for (i, b) in dst.iter_mut().enumerate() {
                    *b = stale[i % stale.len()];
                }
            }
        }
    }
}

pub fn fill_units(dst: &mut [u16], fill: u8, stale: &[u16]) {
    match fill {
        0 => dst.iter_mut().for_each(|b| *b = 0x0000),
        1 => dst.iter_mut().for_each(|b| *b = 0xFFFF),
        2 => dst.iter_mut().for_each(|b| *b = 0xA5A5),
        3 => dst.iter_mut().for_each(|b| *b = 0xD800),
        _ => {
            if stale.is_empty() {
                dst.iter_mut().for_each(|b| *b = 0xDC00);
            } else {
                for (i, b) in dst.iter_mut().enumerate() {
                    *b = stale[i % stale.len()];
                }
            }
        }
    }
}

/// Valid UTF-8 filler of exactly `dst.len()` bytes: `phase` ASCII bytes, then
/// a repeated 1-4-byte character (so that `written` can land inside an old
/// character at every phase), then ASCII padding.
pub fn fill_valid_utf8(dst: &mut [u8], fill: u8, phase: u8, stale: &[u8]) {
    let len = dst.len();
    let ch: &[u8] = match fill {
        0 => &[0x00],
        1 => b"x",
        2 => &[0xC3, 0xA9],
        3 => &[0xE2, 0x82, 0xAC],
        4 => &[0xF0, 0x9F, 0x92, 0xA9],
        _ => {
            // stale output (valid UTF-8 as long as earlier output was),
            // truncated at a character boundary, rest padded
            let mut n = stale.len().min(len);
            while n > 0 && n < stale.len() && (stale[n] & 0xC0) == 0x80 {
                n -= 1;
            }
            if std::str::from_utf8(&stale[..n]).is_ok() {
                dst[..n].copy_from_slice(&stale[..n]);
                // pad with a 3-byte character pattern, then ASCII
                let mut i = n;
                while i + 3 <= len {
                    dst[i..i + 3].copy_from_slice(&[0xEF, 0xBF, 0xBD]);
                    i += 3;
                }
                while i < len {
                    dst[i] = b'~';
                    i += 1;
                }
                return;
            }
            &[0xE2, 0x82, 0xAC]
        }
    };
    let mut i = 0usize;
    let p = (phase as usize).min(len);
    while i < p {
        dst[i] = b'.';
        i += 1;
    }
    while i + ch.len() <= len {
        dst[i..i + ch.len()].copy_from_slice(ch);
        i += ch.len();
    }
    while i < len {
        dst[i] = b'~';
        i += 1;
    }
}

thread_local! {
    static LAST_PANIC: RefCell<Option<String>> = const { RefCell::new(None) };
    static GUARD_DEPTH: std::cell::Cell<u32> = const { std::cell::Cell::new(0) };
}

/// `catch_unwind` for calls into the code under test. Panics outside such a
/// guard are harness bugs and are printed.
pub fn guard<R>(f: impl FnOnce() -> R) -> std::thread::Result<R> {
    GUARD_DEPTH.with(|d| d.set(d.get() + 1));
    let r = std::panic::catch_unwind(std::panic::AssertUnwindSafe(f));
    GUARD_DEPTH.with(|d| d.set(d.get() - 1));
    r
}

/// Install a silent panic hook that records the message (per thread).
pub fn install_panic_hook() {
    std::panic::set_hook(Box::new(|info| {
        let msg = if let Some(s) = info.payload().downcast_ref::<&str>() {
            s.to_string()
        } else if let Some(s) = info.payload().downcast_ref::<String>() {
            s.clone()
        } else {
            "<non-string panic>".to_string()
        };
        let loc = info
            .location()
            .map(|l| format!("{}:{}", l.file(), l.line()))
            .unwrap_or_default();
        if msg.contains("unsafe precondition(s) violated") || msg.contains("cannot unwind") || msg.contains("non-unwinding") {
            // a non-unwinding panic (e.g. std's "unsafe precondition(s) violated"
            // check, compiled in because debug assertions are on) aborts the
            // process: leave a note saying which run was executing
            let (seed, index) = CURRENT_RUN.with(|c| c.get());
            if let (Some(f), Some(p)) = (DEATH_FILE.get(), DEATH_PROP.get()) {
                let _ = std::fs::write(f, format!("{} {} {}\n", p, seed, index));
            }
            eprintln!("ABORTING PANIC in run {}: {} @ {}", index, msg, loc);
        } else if GUARD_DEPTH.with(|d| d.get()) == 0 {
            eprintln!("HARNESS PANIC: {} @ {}", msg, loc);
            if std::env::var_os("VERIF_DEBUG_BACKTRACE").is_some() {
                eprintln!("{}", std::backtrace::Backtrace::force_capture());
            }
        }
        LAST_PANIC.with(|p| *p.borrow_mut() = Some(format!("{} @ {}", msg, loc)));
    }));
}

pub fn take_panic() -> String {
    LAST_PANIC
        .with(|p| p.borrow_mut().take())
        .unwrap_or_else(|| "<panic>".to_string())
}

// ---------------------------------------------------------------------
// which run is executing on this thread (for substrates that kill the
// process on a finding: ASan, Miri)

thread_local! {
    static CURRENT_RUN: std::cell::Cell<(u64, u64)> = const { std::cell::Cell::new((0, 0)) };
}
static PRINT_INDEX: AtomicBool = AtomicBool::new(false);
static DEATH_FILE: std::sync::OnceLock<String> = std::sync::OnceLock::new();
static DEATH_PROP: std::sync::OnceLock<String> = std::sync::OnceLock::new();

pub fn set_print_index(on: bool) {
    PRINT_INDEX.store(on, Ordering::Relaxed);
}

pub fn set_current_run(seed: u64, index: u64) {
    CURRENT_RUN.with(|c| c.set((seed, index)));
    if PRINT_INDEX.load(Ordering::Relaxed) {
        println!("run {}", index);
    }
}

#[cfg(feature = "asan")]
extern "C" {
    fn __sanitizer_set_death_callback(cb: Option<unsafe extern "C" fn()>);
}

#[cfg(feature = "asan")]
unsafe extern "C" fn on_death() {
    let (seed, index) = CURRENT_RUN.with(|c| c.get());
    if let (Some(f), Some(p)) = (DEATH_FILE.get(), DEATH_PROP.get()) {
        let _ = std::fs::write(f, format!("{} {} {}\n", p, seed, index));
    }
}

// Fatal signals (a segfault, or glibc aborting on a corrupted heap after the
// code under test wrote outside a buffer): leave the same note, then die
// the default way. `signal`/`raise` come from the C library std links anyway.
extern "C" {
    fn signal(signum: i32, handler: usize) -> usize;
    fn raise(signum: i32) -> i32;
}

extern "C" fn on_fatal_signal(sig: i32) {
    let (seed, index) = CURRENT_RUN.with(|c| c.get());
    if let (Some(f), Some(p)) = (DEATH_FILE.get(), DEATH_PROP.get()) {
        if !std::path::Path::new(f).exists() {
            let _ = std::fs::write(f, format!("{} {} {}\n", p, seed, index));
        }
    }
    unsafe {
        signal(sig, 0); // SIG_DFL
        raise(sig);
    }
}

/// When the process is killed (sanitizer, aborting panic, fatal signal),
/// leave a note saying which run of which property was executing on the
/// faulting thread.
pub fn install_death_note(prop: &str, file: Option<String>) {
    let _ = DEATH_PROP.set(prop.to_string());
    if let Some(f) = file {
        let _ = DEATH_FILE.set(f);
        if !cfg!(miri) {
            unsafe {
                for sig in [11, 6, 7, 4] {
                    // SIGSEGV, SIGABRT, SIGBUS, SIGILL
                    signal(sig, on_fatal_signal as extern "C" fn(i32) as usize);
                }
            }
        }
    }
    #[cfg(feature = "asan")]
    unsafe {
        __sanitizer_set_death_callback(Some(on_death));
    }
}

// ---------------------------------------------------------------------
// optional per-call log (trace command only)

static LOG_CALLS: AtomicBool = AtomicBool::new(false);

thread_local! {
    static PEEK_EVERY_CALL: std::cell::Cell<bool> = const { std::cell::Cell::new(false) };
}
/// C17 only: the pump asks the length queries before every converter call.
pub fn set_peek_every_call(on: bool) {
    PEEK_EVERY_CALL.with(|c| c.set(on));
}
pub fn peek_every_call() -> bool {
    PEEK_EVERY_CALL.with(|c| c.get())
}
thread_local! {
    static CALL_LOG: RefCell<Vec<String>> = const { RefCell::new(Vec::new()) };
}
pub fn set_log_calls(on: bool) {
    LOG_CALLS.store(on, Ordering::Relaxed);
}
#[inline]
pub fn log_calls() -> bool {
    LOG_CALLS.load(Ordering::Relaxed)
}
pub fn log_call(s: String) {
    CALL_LOG.with(|l| l.borrow_mut().push(s));
}
pub fn take_call_log() -> Vec<String> {
    CALL_LOG.with(|l| std::mem::take(&mut *l.borrow_mut()))
}

// ---------------------------------------------------------------------
// oracle failures noticed in helper code that has no run to attach them to
// (queries that panic, ...); the drivers drain them after every event

thread_local! {
    static DEFERRED: RefCell<Vec<(&'static str, &'static str, String)>> = const { RefCell::new(Vec::new()) };
}
pub fn defer_viol(prop: &'static str, oracle: &'static str, detail: String) {
    DEFERRED.with(|d| d.borrow_mut().push((prop, oracle, detail)));
}
pub fn take_deferred() -> Vec<(&'static str, &'static str, String)> {
    DEFERRED.with(|d| std::mem::take(&mut *d.borrow_mut()))
}
