//! ENC and PIPE scenarios: Transport(text as UTF-8 or UTF-16) -> Pump(real
//! Encoder) -> Sink [-> simulated pipe -> real Decoder].

use crate::dec::{viol, Faults, Viol};
use crate::encs::{family, Family};
use crate::gen::{text_scalars, text_to_utf16, text_to_utf8, Unit};
use crate::ops::*;
use crate::rng::Digest;
use crate::sink::*;
use encoding_rs::*;

#[derive(Clone, Debug)]
pub struct EncSpec {
    pub enc: &'static Encoding,
    pub repl: bool,
    /// source form: UTF-16 (true) or UTF-8
    pub form16: bool,
    pub text: Vec<Unit>,
}

#[derive(Clone, Copy, Debug, PartialEq, Eq)]
pub enum ERes {
    InputEmpty,
    OutputFull,
    Unmappable(char),
}

impl ERes {
    pub fn code(self) -> u64 {
        match self {
            ERes::InputEmpty => 0,
            ERes::OutputFull => 1,
            ERes::Unmappable(c) => 2 + ((c as u64) << 8),
        }
    }
    pub fn name(self) -> String {
        match self {
            ERes::InputEmpty => "InputEmpty".into(),
            ERes::OutputFull => "OutputFull".into(),
            ERes::Unmappable(c) => format!("Unmappable(U+{:04X})", c as u32),
        }
    }
}

fn from_coder(r: CoderResult) -> ERes {
    match r {
        CoderResult::InputEmpty => ERes::InputEmpty,
        CoderResult::OutputFull => ERes::OutputFull,
    }
}
fn from_encoder(r: EncoderResult) -> ERes {
    match r {
        EncoderResult::InputEmpty => ERes::InputEmpty,
        EncoderResult::OutputFull => ERes::OutputFull,
        EncoderResult::Unmappable(c) => ERes::Unmappable(c),
    }
}

#[derive(Clone, Debug)]
pub struct ECallOut {
    pub res: ERes,
    pub read: usize,
    pub written: usize,
    pub had_unmappables: bool,
    pub out: Vec<u8>,
    pub cap_used: usize,
    pub panicked: Option<String>,
    pub viols: Vec<Viol>,
}

/// Minimum capacity the documentation asks for.
pub fn enc_min_cap(enc: &'static Encoding, repl: bool) -> usize {
    if repl && !enc.output_encoding().can_encode_everything() {
        14
    } else {
        4
    }
}

pub enum Src<'a> {
    U8(&'a str),
    U16(&'a [u16]),
}

impl<'a> Src<'a> {
    pub fn len(&self) -> usize {
        match self {
            Src::U8(s) => s.len(),
            Src::U16(s) => s.len(),
        }
    }
}

#[allow(clippy::too_many_arguments)]
pub fn guarded_enc_call(e: &mut Encoder, repl: bool, src: &Src, offer: &Offer, cap: usize, fill: u8, last: bool, stale: &[u8], in_contract: bool) -> ECallOut {
    let mut viols: Vec<Viol> = Vec::new();
    let mut out = ECallOut { res: ERes::InputEmpty, read: 0, written: 0, had_unmappables: false, out: Vec::new(), cap_used: cap, panicked: None, viols: Vec::new() };
    // source placed in guarded memory
    let (g8, g16);
    let src_g: Src = match src {
        Src::U8(s) => {
            g8 = Guard8::from(s.as_bytes(), offer.src_off as usize);
            Src::U8(std::str::from_utf8(g8.slice()).expect("harness: source chunk must be valid UTF-8"))
        }
        Src::U16(s) => {
            g16 = Guard16::from(s, offer.src_off as usize);
            Src::U16(g16.slice())
        }
    };
    let src_len = src.len();

    if offer.kind == K_STRING {
        // Vec<u8> sink: prior contents + exactly `cap` bytes of spare capacity
        let prior: &[u8] = match offer.phase {
            0 => b"",
            1 => b"x",
            2 => &[0xFF, 0x00],
            _ => b"prior",
        };
        let mut v: Vec<u8> = Vec::with_capacity(prior.len() + cap);
        v.extend_from_slice(prior);
        out.cap_used = v.capacity() - v.len();
        if !cfg!(miri) {
            let sp = v.spare_capacity_mut();
            let mut tmp = vec![0u8; sp.len()];
            fill_bytes(&mut tmp, fill, stale);
            for (d, b) in sp.iter_mut().zip(tmp.iter()) {
                d.write(*b);
            }
        }
        let (ptr0, cap0, len0) = (v.as_ptr() as usize, v.capacity(), v.len());
        let r = crate::sink::guard((|| match (&src_g, repl) {
            (Src::U8(s), true) => {
                let (r, rd, he) = e.encode_from_utf8_to_vec(s, &mut v, last);
                (from_coder(r), rd, he)
            }
            (Src::U8(s), false) => {
                let (r, rd) = e.encode_from_utf8_to_vec_without_replacement(s, &mut v, last);
                (from_encoder(r), rd, false)
            }
            (Src::U16(s), true) => {
                // no Vec variant for UTF-16 sources: use the spare capacity as a slice
                let old = v.len();
                let total = v.capacity();
                v.resize(total, 0xEE);
                let (r, rd, wr, he) = e.encode_from_utf16(s, &mut v[old..], last);
                v.truncate(old + wr.min(total - old));
                (from_coder(r), rd, he)
            }
            (Src::U16(s), false) => {
                let old = v.len();
                let total = v.capacity();
                v.resize(total, 0xEE);
                let (r, rd, wr) = e.encode_from_utf16_without_replacement(s, &mut v[old..], last);
                v.truncate(old + wr.min(total - old));
                (from_encoder(r), rd, false)
            }
        }));
        match r {
            Err(_) => out.panicked = Some(take_panic()),
            Ok((res, rd, he)) => {
                out.res = res;
                out.read = rd;
                out.had_unmappables = he;
                if v.as_ptr() as usize != ptr0 || v.capacity() != cap0 {
                    viols.push(viol("C06", "vec-reallocated", format!("capacity {} -> {}", cap0, v.capacity())));
                }
                if v.len() < len0 || &v[..len0] != prior {
                    viols.push(viol("C06", "vec-old-contents-changed", format!("prior {:02x?}", prior)));
                } else {
                    out.written = v.len() - len0;
                    out.out = v[len0..].to_vec();
                }
            }
        }
    } else {
        let mut g = Guard8::new(cap, offer.dst_off as usize);
        fill_bytes(g.slice_mut(), fill, stale);
        let r = crate::sink::guard((|| {
            let d = g.slice_mut();
            match (&src_g, repl) {
                (Src::U8(s), true) => {
                    let (r, rd, wr, he) = e.encode_from_utf8(s, d, last);
                    (from_coder(r), rd, wr, he)
                }
                (Src::U8(s), false) => {
                    let (r, rd, wr) = e.encode_from_utf8_without_replacement(s, d, last);
                    (from_encoder(r), rd, wr, false)
                }
                (Src::U16(s), true) => {
                    let (r, rd, wr, he) = e.encode_from_utf16(s, d, last);
                    (from_coder(r), rd, wr, he)
                }
                (Src::U16(s), false) => {
                    let (r, rd, wr) = e.encode_from_utf16_without_replacement(s, d, last);
                    (from_encoder(r), rd, wr, false)
                }
            }
        }));
        match r {
            Err(_) => out.panicked = Some(take_panic()),
            Ok((res, rd, wr, he)) => {
                out.res = res;
                out.read = rd;
                out.written = wr;
                out.had_unmappables = he;
                if wr <= cap {
                    out.out = g.slice()[..wr].to_vec();
                }
            }
        }
        if !g.intact() {
            viols.push(viol("C06", "canary", format!("write outside the {}-byte destination", cap)));
        }
    }

    if let Some(p) = &out.panicked {
        if in_contract {
            viols.push(viol("C06", "panic-in-contract", format!("panic with src.len()={} cap={} last={}: {}", src_len, out.cap_used, last, p)));
        }
    } else {
        if out.read > src_len {
            viols.push(viol("C06", "read-exceeds-source", format!("read {} > src.len() {}", out.read, src_len)));
        }
        if out.written > out.cap_used {
            viols.push(viol("C06", "written-exceeds-destination", format!("written {} > dst.len() {}", out.written, out.cap_used)));
        }
        if out.res == ERes::InputEmpty && out.read != src_len {
            viols.push(viol("C06", "inputempty-with-unread-input", format!("InputEmpty but read {} of {}", out.read, src_len)));
        }
    }
    out.viols = viols;
    out
}

// ---------------------------------------------------------------------

#[derive(Clone, Copy, Debug, PartialEq, Eq)]
pub enum EncMode {
    Plain,
    Replicas,
    /// encoder output is piped into a real decoder of the same encoding (C12)
    Pipe,
}

#[derive(Clone, Debug)]
pub struct ECallRec {
    pub src_units: usize,
    pub cap: usize,
    pub kind: u8,
    pub last: bool,
    pub res: ERes,
    pub read: usize,
    pub written: usize,
    pub had_unmappables: bool,
    pub query: bool,
    /// index of the first character of the chunk, and of the first one not consumed
    pub char_before: usize,
    pub char_after: usize,
}

pub struct EncRun {
    pub calls: Vec<ECallRec>,
    pub out: Vec<u8>,
    pub had_unmappables: bool,
    /// (index of the character in the text, character reported)
    pub unmappables: Vec<(usize, char)>,
    pub finished: bool,
    pub viols: Vec<Viol>,
    pub faults: Faults,
    pub probes: Vec<(&'static str, u64)>,
    pub transcript: Digest,
    pub sig: Digest,
    pub nontrivial: bool,
    pub aborted: Option<String>,
    pub env_calls: usize,
    /// the environment has delivered the whole stream and raised EOF
    pub env_done: bool,
    pub ops: Vec<Op>,
    pub events: usize,
    /// PIPE: what the downstream decoder produced
    pub pipe_text: String,
    pub final_pending_state: bool,
    pub panicked_in_contract: bool,
}

impl EncRun {
    pub fn probe(&mut self, name: &'static str) {
        for p in self.probes.iter_mut() {
            if p.0 == name {
                p.1 += 1;
                return;
            }
        }
        self.probes.push((name, 1));
    }
}

pub fn write_ncr(out: &mut Vec<u8>, c: char) {
    out.extend_from_slice(format!("&#{};", c as u32).as_bytes());
}

/// Escape state implied by ISO-2022-JP bytes: true when the last escape
/// sequence is not `ESC ( B`.
pub fn iso2022jp_outside_ascii(bytes: &[u8]) -> bool {
    let mut outside = false;
    let mut i = 0usize;
    while i < bytes.len() {
        if bytes[i] == 0x1B && i + 2 < bytes.len() {
            let (a, b) = (bytes[i + 1], bytes[i + 2]);
            if a == 0x28 && b == 0x42 {
                outside = false;
            } else if (a == 0x28 && b == 0x4A) || (a == 0x24 && b == 0x42) || (a == 0x24 && b == 0x40) || (a == 0x28 && b == 0x49) {
                outside = true;
            }
            i += 3;
        } else {
            i += 1;
        }
    }
    outside
}

pub fn query_for_enc(e: &Encoder, form16: bool, repl: bool, n: usize) -> Option<usize> {
    match guard(|| match (form16, repl) {
        (false, false) => e.max_buffer_length_from_utf8_without_replacement(n),
        (false, true) => e.max_buffer_length_from_utf8_if_no_unmappables(n),
        (true, false) => e.max_buffer_length_from_utf16_without_replacement(n),
        (true, true) => e.max_buffer_length_from_utf16_if_no_unmappables(n),
    }) {
        Ok(v) => v,
        Err(_) => {
            let p = take_panic();
            defer_viol("C06", "panic-in-contract", format!("max_buffer_length_from_*({}) panicked: {}", n, p));
            defer_viol("C07", "query-panicked", format!("max_buffer_length_from_*({}) panicked: {}", n, p));
            None
        }
    }
}

/// Does this chunk contain a character the encoder cannot map? Decided by a
/// fresh without-replacement encoder of the same encoding over the chunk.
fn chunk_has_unmappable(enc: &'static Encoding, chunk: &[char]) -> bool {
    let s: String = chunk.iter().collect();
    let mut e = enc.new_encoder();
    let mut dst = vec![0u8; s.len() * 4 + 32];
    let mut tr = 0usize;
    let mut guard = 0usize;
    loop {
        guard += 1;
        if guard > s.len() + 8 {
            return false;
        }
        let (r, rd, _wr) = match crate::sink::guard(|| e.encode_from_utf8_without_replacement(&s[tr..], &mut dst, true)) {
            Ok(t) => t,
            Err(_) => return false,
        };
        if tr + rd > s.len() || !s.is_char_boundary(tr + rd) {
            return false;
        }
        tr += rd;
        match r {
            EncoderResult::InputEmpty => return false,
            EncoderResult::Unmappable(_) => return true,
            EncoderResult::OutputFull => {}
        }
    }
}

struct Pipe {
    dec: Decoder,
    held: Vec<u8>,
    text: String,
    fed: usize,
}

impl Pipe {
    fn feed(&mut self, bytes: &[u8], last: bool, viols: &mut Vec<Viol>) {
        let mut dst = vec![0u8; bytes.len() * 4 + 32];
        let mut tr = 0usize;
        let mut guard = 0usize;
        loop {
            guard += 1;
            if guard > bytes.len() + 8 {
                viols.push(viol("C12", "downstream-decoder-stuck", "the downstream decoder makes no progress on the encoder's output".into()));
                break;
            }
            let (r, rd, wr) = match crate::sink::guard(|| self.dec.decode_to_utf8_without_replacement(&bytes[tr..], &mut dst, last)) {
                Ok(t) => t,
                Err(_) => {
                    viols.push(viol("C12", "downstream-decoder-panicked", format!("the decoder of the same encoding panicked on the encoder's output: {}", take_panic())));
                    break;
                }
            };
            if tr + rd > bytes.len() || wr > dst.len() {
                break;
            }
            tr += rd;
            self.text.push_str(&String::from_utf8_lossy(&dst[..wr]));
            match r {
                DecoderResult::InputEmpty => break,
                DecoderResult::OutputFull => {}
                DecoderResult::Malformed(l, a) => {
                    viols.push(viol(
                        "C12",
                        "decoder-rejects-encoder-output",
                        format!("downstream decoder reported Malformed({}, {}) at byte {} of the encoder's output", l, a, self.fed + tr),
                    ));
                    self.text.push('\u{FFFD}');
                }
            }
        }
        self.fed += bytes.len();
    }
}

pub type EPeekFn<'a> = &'a mut dyn FnMut(&Encoder, u8) -> Vec<Viol>;

pub fn drive_enc(spec: &EncSpec, mode: EncMode, source: &mut dyn OpSource, mut peek_fn: Option<EPeekFn>) -> EncRun {
    let nrep = if mode == EncMode::Replicas { 3 } else { 1 };
    let mut encs: Vec<Encoder> = (0..nrep).map(|_| spec.enc.new_encoder()).collect();
    let min = enc_min_cap(spec.enc, spec.repl);
    let (s8, b8) = text_to_utf8(&spec.text);
    let (s16, b16) = text_to_utf16(&spec.text);
    let scalars = text_scalars(&spec.text);
    let bounds: &Vec<usize> = if spec.form16 { &b16 } else { &b8 };
    let nchars = spec.text.len();
    let is_2022 = family(spec.enc) == Family::Iso2022Jp;
    let mut run = EncRun {
        calls: Vec::new(),
        out: Vec::new(),
        had_unmappables: false,
        unmappables: Vec::new(),
        finished: false,
        viols: Vec::new(),
        faults: Faults::default(),
        probes: Vec::new(),
        transcript: Digest::new(),
        sig: Digest::new(),
        nontrivial: false,
        aborted: None,
        env_calls: 0,
        env_done: false,
        ops: Vec::new(),
        events: 0,
        pipe_text: String::new(),
        final_pending_state: false,
        panicked_in_contract: false,
    };
    let mut pipe = if mode == EncMode::Pipe {
        Some(Pipe { dec: spec.enc.output_encoding().new_decoder_without_bom_handling(), held: Vec::new(), text: String::new(), fed: 0 })
    } else {
        None
    };
    let mut stale: Vec<u8> = Vec::new();
    let mut visible = 0usize; // in characters
    let mut consumed = 0usize; // in code units of the source form
    let mut consumed_chars = 0usize;
    let mut eof = false;
    let mut last_full = false;
    let mut last_kind: Option<u8> = None;
    let mut last_offer: Option<Offer> = None;
    let mut noninitial_call = false;
    let mut kinds_mask = 0u64;
    let max_events = 20_000usize;

    loop {
        run.env_done = eof && visible == nchars;
        let view = View { remaining: nchars - visible, visible, pending: visible - consumed_chars, eof, finished: run.finished, min_cap: min, last_full };
        let op = match source.next(&view) {
            Some(op) => op,
            None => break,
        };
        run.events += 1;
        if run.events > max_events {
            break;
        }
        for (p, o, d) in take_deferred() {
            run.viols.push(viol(p, o, d));
        }
        match op {
            Op::Deliver(n) => {
                if eof || run.finished {
                    continue;
                }
                let n = n.min(nchars - visible);
                if visible > consumed_chars && n > 0 {
                    run.faults.deliver_while_pending += 1;
                }
                visible += n;
            }
            Op::Eof => {
                if visible == nchars {
                    eof = true;
                }
            }
            Op::Reuse(_) => {}
            Op::Peek(what) => {
                if run.finished {
                    continue;
                }
                run.faults.peek += 1;
                if let Some(f) = peek_fn.as_mut() {
                    let v = f(&encs[0], what);
                    run.viols.extend(v);
                }
            }
            Op::Call(offer) => {
                if run.finished {
                    continue;
                }
                if crate::sink::peek_every_call() {
                    if let Some(f) = peek_fn.as_mut() {
                        let v = f(&encs[0], 255);
                        run.viols.extend(v);
                    }
                }
                let end = bounds[visible];
                let src: Src = if spec.form16 { Src::U16(&s16[consumed..end]) } else { Src::U8(&s8[consumed..end]) };
                let src_units = end - consumed;
                let last = eof && visible == nchars;
                let pending_state = encs[0].has_pending_state();
                // the Encoder documentation states no minimum output size: a sink
                // below what C08 needs for progress (even an empty one) may only be
                // answered with OutputFull - never with a panic-free wrong answer
                // (InputEmpty with the trailer missing, bytes outside the buffer)
                let mut cap = if offer.submin { offer.cap } else { offer.cap.max(min) };
                if offer.submin {
                    run.probe("sub_minimum_sink");
                }
                let mut by_query = false;
                if offer.query {
                    if let Some(q) = query_for_enc(&encs[0], spec.form16, spec.repl, src_units) {
                        if q <= (1 << 20) {
                            cap = q.max(min) + offer.slack as usize;
                            by_query = true;
                            run.faults.query_exact += 1;
                        }
                    }
                }
                let in_contract = cap >= min;
                if src_units == 0 && !last {
                    run.faults.zero_read += 1;
                    run.env_calls += 1;
                }
                if visible < nchars {
                    run.faults.short_read += 1;
                }
                if last {
                    if src_units == 0 {
                        run.faults.eof_separate += 1;
                    } else {
                        run.faults.eof_with_data += 1;
                    }
                }
                if cap == min {
                    run.faults.min_capacity += 1;
                }
                if last_full && last_offer.as_ref() == Some(&offer) {
                    run.faults.stall += 1;
                }
                if let Some(k) = last_kind {
                    if k != offer.kind {
                        run.faults.sink_switch += 1;
                    }
                }
                if offer.fill != 0 {
                    run.faults.dirty_buffer += 1;
                }
                if offer.dst_off != 0 || offer.src_off != 0 {
                    run.faults.placement += 1;
                }
                last_kind = Some(offer.kind);
                last_offer = Some(offer.clone());
                kinds_mask |= 1 << offer.kind;
                if !run.calls.is_empty() && pending_state {
                    noninitial_call = true;
                    if last_full {
                        run.probe("outputfull_in_non_ascii_state");
                    }
                }

                let mut outs: Vec<ECallOut> = Vec::with_capacity(nrep);
                for (i, e) in encs.iter_mut().enumerate() {
                    let fill = if mode == EncMode::Replicas { ((offer.fill as usize + i) % 5) as u8 } else { offer.fill };
                    outs.push(guarded_enc_call(e, spec.repl, &src, &offer, cap, fill, last, &stale, in_contract));
                }
                for o in outs.iter_mut() {
                    run.viols.append(&mut o.viols);
                }
                if let Some(p) = outs.iter().find_map(|o| o.panicked.clone()) {
                    if nrep > 1 && outs.iter().any(|o| o.panicked.is_none()) {
                        run.viols.push(viol("C18", "replica-divergence", format!("call {}: some replicas panicked ({}) while others returned normally", run.calls.len(), p)));
                    }
                    run.panicked_in_contract = in_contract;
                    run.aborted = Some(format!("panic: {}", p));
                    run.ops = source.recorded().to_vec();
                    return run;
                }
                for i in 1..nrep {
                    let (a, b) = (&outs[0], &outs[i]);
                    if !(a.res == b.res && a.read == b.read && a.written == b.written && a.had_unmappables == b.had_unmappables && a.out == b.out) {
                        run.viols.push(viol(
                            "C18",
                            "replica-divergence",
                            format!(
                                "call {} (src {} units, cap {}, last {}): replica 0 -> ({}, {}, {}) {:02x?}; replica {} -> ({}, {}, {}) {:02x?}",
                                run.calls.len(), src_units, cap, last, a.res.name(), a.read, a.written, a.out, i, b.res.name(), b.read, b.written, b.out
                            ),
                        ));
                        run.aborted = Some("replicas diverged".into());
                        run.ops = source.recorded().to_vec();
                        return run;
                    }
                }
                let c = &outs[0];
                if c.read > src_units || c.written > c.cap_used {
                    run.aborted = Some("read/written contract broken".into());
                    run.ops = source.recorded().to_vec();
                    return run;
                }
                // the consumed prefix must end at a character boundary
                let new_consumed = consumed + c.read;
                let new_chars = match bounds.binary_search(&new_consumed) {
                    Ok(mut i) => {
                        // empty characters do not exist, but equal bounds cannot either
                        while i + 1 < bounds.len() && bounds[i + 1] == new_consumed {
                            i += 1;
                        }
                        i
                    }
                    Err(ins) => {
                        if spec.form16 {
                            // legal for the API (the rest of the pair is then an unpaired low
                            // surrogate), wrong by C04; the run goes on so that the other
                            // properties' oracles (C12 round trip) see the consequence too
                            run.viols.push(viol("C04", "surrogate-pair-split-by-read", format!("call {} (cap {}): read {} ends between the halves of a surrogate pair ({})", run.calls.len(), cap, c.read, c.res.name())));
                            ins - 1
                        } else {
                            let d = format!("call {} (cap {}): read {} ends inside a UTF-8 sequence, so the rest cannot be re-pushed as a &str ({}, written {})", run.calls.len(), cap, c.read, c.res.name(), c.written);
                            run.viols.push(viol("C06", "read-splits-character", d.clone()));
                            run.viols.push(viol("C04", "read-splits-utf8-character", d.clone()));
                            run.viols.push(viol("C08", "read-splits-utf8-character", d));
                            if pipe.is_some() {
                                // C12: is what was emitted so far valid on its own?
                                run.out.extend_from_slice(&c.out);
                                let mut fresh = spec.enc.output_encoding().new_decoder_without_bom_handling();
                                let mut dst = vec![0u8; run.out.len() * 4 + 32];
                                if let Ok((DecoderResult::Malformed(l, a), _, _)) = crate::sink::guard(|| fresh.decode_to_utf8_without_replacement(&run.out, &mut dst, true)) {
                                    run.viols.push(viol("C12", "prefix-invalid-at-call-boundary", format!("after call {} the {} bytes emitted so far do not decode cleanly: Malformed({}, {})", run.calls.len(), run.out.len(), l, a)));
                                }
                            }
                            run.aborted = Some("read inside a character".into());
                            run.ops = source.recorded().to_vec();
                            return run;
                        }
                    }
                };
                // C07
                if by_query && c.res == ERes::OutputFull {
                    let excused = spec.repl && chunk_has_unmappable(spec.enc, &scalars[consumed_chars..visible]);
                    if !excused {
                        run.viols.push(viol(
                            "C07",
                            "outputfull-with-queried-size",
                            format!("query for {} units said {}, call returned OutputFull after read {} written {}", src_units, cap, c.read, c.written),
                        ));
                    } else {
                        run.probe("query_outputfull_excused_by_unmappable");
                    }
                }
                // C08
                let progressed = c.read > 0 || c.written > 0 || matches!(c.res, ERes::Unmappable(_));
                let ends = c.res == ERes::InputEmpty && last;
                if in_contract && !progressed && !ends && (src_units > 0 || last) {
                    run.viols.push(viol(
                        "C08",
                        "call-without-progress",
                        format!("call {}: {} pending units, cap {}, last {} -> ({}, 0, 0)", run.calls.len(), src_units, cap, last, c.res.name()),
                    ));
                }
                // pump reaction
                run.out.extend_from_slice(&c.out);
                run.had_unmappables |= c.had_unmappables;
                if let ERes::Unmappable(ch) = c.res {
                    if new_chars == 0 {
                        run.viols.push(viol("C04", "unmappable-without-consuming", format!("Unmappable({:?}) with nothing consumed", ch)));
                    } else {
                        run.unmappables.push((new_chars - 1, ch));
                    }
                    write_ncr(&mut run.out, ch);
                }
                stale = c.out.clone();
                if c.res == ERes::OutputFull {
                    if spec.form16 && new_consumed < s16.len() && (0xD800..0xDC00).contains(&s16[new_consumed]) && new_chars < nchars && matches!(spec.text[new_chars], Unit::Scalar(_)) {
                        run.probe("surrogate_pair_at_output_limit");
                    }
                    if c.had_unmappables {
                        run.probe("ncr_then_outputfull");
                    }
                    if is_2022 && c.out.len() >= 3 && c.out[c.out.len() - 3] == 0x1B {
                        run.probe("escape_at_buffer_end");
                    }
                }
                last_full = c.res == ERes::OutputFull;
                if last_full {
                    run.faults.backpressure += 1;
                }
                // C12 invariants at the call boundary
                if let Some(p) = pipe.as_mut() {
                    // what the pipe lets through now: held bytes + this call's
                    // output (+ the pump's own NCR), re-segmented, minus a hold-back
                    let mut avail = std::mem::take(&mut p.held);
                    avail.extend_from_slice(&run.out[p.fed + avail.len()..]);
                    let hold = (offer.pipe_hold as usize).min(avail.len());
                    let pass = avail.len() - hold;
                    let cut = (offer.pipe_cut as usize).min(pass);
                    let mut v = Vec::new();
                    p.feed(&avail[..cut], false, &mut v);
                    p.feed(&avail[cut..pass], false, &mut v);
                    p.held = avail[pass..].to_vec();
                    run.viols.append(&mut v);
                    // validity of everything emitted so far, as a complete stream
                    if run.out.len() <= 64 {
                        let mut fresh = spec.enc.output_encoding().new_decoder_without_bom_handling();
                        let mut dst = vec![0u8; run.out.len() * 4 + 32];
                        let r = guard(|| fresh.decode_to_utf8_without_replacement(&run.out, &mut dst, true)).map(|t| t.0).unwrap_or(DecoderResult::InputEmpty);
                        if let DecoderResult::Malformed(l, a) = r {
                            run.viols.push(viol(
                                "C12",
                                "prefix-invalid-at-call-boundary",
                                format!("after call {} the {} bytes emitted so far do not decode cleanly: Malformed({}, {})", run.calls.len(), run.out.len(), l, a),
                            ));
                        }
                    }
                    let expect_pending = is_2022 && iso2022jp_outside_ascii(&run.out);
                    if encs[0].has_pending_state() != expect_pending {
                        run.viols.push(viol(
                            "C12",
                            "has-pending-state-mismatch",
                            format!("after call {}: has_pending_state() = {}, emitted bytes say {}", run.calls.len(), encs[0].has_pending_state(), expect_pending),
                        ));
                    }
                }
                if log_calls() {
                    log_call(format!("chars {}..{} ({} units) cap={} kind={} last={} -> {} read={} written={} had_unmappables={} out={:02x?}", consumed_chars, visible, src_units, c.cap_used, offer.kind, last, c.res.name(), c.read, c.written, c.had_unmappables, c.out));
                }
                let t = &mut run.transcript;
                t.usize(src_units);
                t.usize(cap);
                t.byte(last as u8);
                t.u64(c.res.code());
                t.usize(c.read);
                t.usize(c.written);
                t.byte(c.had_unmappables as u8);
                t.bytes(&c.out);
                let s = &mut run.sig;
                s.usize(src_units.min(5));
                s.usize(if cap == min { 0 } else if cap < min + 4 { 1 } else if cap < min + 20 { 2 } else { 3 });
                s.byte(last as u8);
                s.u64(match c.res {
                    ERes::Unmappable(_) => 2,
                    r => r.code(),
                });
                s.byte((c.read > 0) as u8);
                s.usize(c.written.min(6));
                s.byte(pending_state as u8);
                run.calls.push(ECallRec {
                    src_units,
                    cap: c.cap_used,
                    kind: offer.kind,
                    last,
                    res: c.res,
                    read: c.read,
                    written: c.written,
                    had_unmappables: c.had_unmappables,
                    query: by_query,
                    char_before: consumed_chars,
                    char_after: new_chars,
                });
                consumed = new_consumed;
                consumed_chars = new_chars;
                if ends {
                    run.finished = true;
                    run.final_pending_state = encs[0].has_pending_state();
                    if let Some(p) = pipe.as_mut() {
                        let mut v = Vec::new();
                        let rest = std::mem::take(&mut p.held);
                        p.feed(&rest, true, &mut v);
                        run.viols.append(&mut v);
                        if is_2022 && iso2022jp_outside_ascii(&run.out) {
                            run.viols.push(viol("C12", "stream-not-back-in-ascii", "ISO-2022-JP output does not end in the ASCII state".into()));
                        }
                    }
                }
            }
        }
    }
    if let Some(p) = pipe {
        run.pipe_text = p.text;
    }
    for (p, o, d) in take_deferred() {
        run.viols.push(viol(p, o, d));
    }
    run.ops = source.recorded().to_vec();
    run.sig.usize(crate::encs::index_of(spec.enc));
    run.sig.byte(spec.form16 as u8);
    run.sig.u64(kinds_mask);
    run.sig.byte(spec.repl as u8);
    run.nontrivial = run.calls.len() >= 2 && run.faults.total() > 0 && (noninitial_call || run.faults.backpressure > 0);
    run
}

/// Reference execution under the null schedule: whole text, one segment,
/// ample sink, `last = true` (re-pushing after `Unmappable` as documented).
pub struct ERefRun {
    pub out: Vec<u8>,
    pub had_unmappables: bool,
    pub unmappables: Vec<(usize, char)>,
    pub ok: bool,
    pub note: String,
}

pub fn reference_enc(enc: &'static Encoding, repl: bool, form16: bool, text: &[Unit]) -> ERefRun {
    let (s8, b8) = text_to_utf8(text);
    let (s16, b16) = text_to_utf16(text);
    // guarded copies (deterministic bytes behind the source)
    let g8 = Guard8::from(s8.as_bytes(), 0);
    let s8: &str = std::str::from_utf8(g8.slice()).expect("harness: valid UTF-8");
    let g16 = Guard16::from(&s16, 0);
    let s16: &[u16] = g16.slice();
    let bounds = if form16 { &b16 } else { &b8 };
    let total = if form16 { s16.len() } else { s8.len() };
    let mut r = ERefRun { out: Vec::new(), had_unmappables: false, unmappables: Vec::new(), ok: true, note: String::new() };
    let mut e = enc.new_encoder();
    let cap = total * 12 + 64;
    let mut consumed = 0usize;
    let mut guard = 0usize;
    let res = crate::sink::guard((|| loop {
        guard += 1;
        if guard > total + 8 {
            return Err("reference run did not finish".to_string());
        }
        let mut dst = vec![0u8; cap];
        let (res, rd, wr, he) = match (form16, repl) {
            (false, true) => {
                let (a, b, c, d) = e.encode_from_utf8(&s8[consumed..], &mut dst, true);
                (from_coder(a), b, c, d)
            }
            (false, false) => {
                let (a, b, c) = e.encode_from_utf8_without_replacement(&s8[consumed..], &mut dst, true);
                (from_encoder(a), b, c, false)
            }
            (true, true) => {
                let (a, b, c, d) = e.encode_from_utf16(&s16[consumed..], &mut dst, true);
                (from_coder(a), b, c, d)
            }
            (true, false) => {
                let (a, b, c) = e.encode_from_utf16_without_replacement(&s16[consumed..], &mut dst, true);
                (from_encoder(a), b, c, false)
            }
        };
        consumed += rd;
        r.out.extend_from_slice(&dst[..wr]);
        r.had_unmappables |= he;
        match res {
            ERes::InputEmpty => return Ok(()),
            ERes::OutputFull => {}
            ERes::Unmappable(c) => {
                let idx = match bounds.binary_search(&consumed) {
                    Ok(i) => i,
                    Err(_) => return Err("reference run consumed part of a character".to_string()),
                };
                if idx == 0 {
                    return Err("reference run reported Unmappable without consuming".to_string());
                }
                r.unmappables.push((idx - 1, c));
                write_ncr(&mut r.out, c);
            }
        }
    }));
    match res {
        Ok(Ok(())) => {}
        Ok(Err(m)) => {
            r.ok = false;
            r.note = m;
        }
        Err(_) => {
            r.ok = false;
            r.note = format!("reference run panicked: {}", take_panic());
        }
    }
    r
}
