//! Workloads: byte streams for decoders and texts for encoders, built by
//! per-encoding grammars from the run's PRNG.

use crate::encs::{family, Family};
use crate::rng::Rng;
use encoding_rs::*;

// ---------------------------------------------------------------------
// character alphabets

const ASCII_EDGE: &[char] = &[
    'a', 'Z', '0', '9', ' ', '~', '\\', '\n', '\u{0}', '\u{1b}', '\u{e}', '\u{f}', '\u{7f}', '@', '[', '$', '(', 'B', 'J',
];

/// One representative (or a few) per class that some encoder treats
/// differently: 1-, 2-, 3-, 4-byte mappable, folds, PUA, astral, specials.
const CLASS_ALPHABET: &[u32] = &[
    // Latin-1 and folds
    0x80, 0xA0, 0xA5, 0xA9, 0xAD, 0xD7, 0xE9, 0xFF, 0x152, 0x160, 0x192, 0x2DC, 0x20AC, 0x2212, 0x203E, 0x2014, 0x2022,
    // Greek, Cyrillic, Hebrew, Arabic, Thai, Vietnamese combining
    0x3B1, 0x3A9, 0x42F, 0x436, 0x451, 0x490, 0x5D0, 0x5EA, 0x639, 0x6AF, 0xE01, 0xE5B, 0x300, 0x1EA0,
    // CJK ideographs (common, GBK-only, ext A, GB18030-2022 additions)
    0x4E00, 0x4E02, 0x4E8C, 0x4E9C, 0x6F22, 0x9DD7, 0x9FA0, 0x9FA5, 0x9FA6, 0x9FB4, 0x9FBB, 0x3400, 0x4DB5, 0x3007,
    // kana, full-width, half-width
    0x3000, 0x3001, 0x3042, 0x30A2, 0x30FB, 0xFF01, 0xFF21, 0xFF0D, 0xFF5E, 0xFF61, 0xFF71, 0xFF9F, 0xFFE5, 0xFFE3,
    // Hangul and KS X 1001 extras
    0xAC00, 0xAC02, 0xB620, 0xD7A3, 0x3131, 0x326F,
    // presentation forms written by GB18030-2022
    0xFE10, 0xFE19, 0xFE30,
    // private use (gb18030 / x-user-defined / Big5 area)
    0xE000, 0xE5E5, 0xE78D, 0xE796, 0xE7C7, 0xE81E, 0xE864, 0xF780, 0xF7FF, 0xF8FF,
    // specials
    0xFFFD, 0xFEFF, 0xFFFE, 0xFFFF, 0x2028, 0x1B, 0x0E, 0x0F,
    // astral (Big5-HKSCS, gb18030 four-byte, plain)
    0x10000, 0x1F4A9, 0x20000, 0x2000B, 0x2008A, 0x2F9F4, 0x10FFFF,
    // scalar values at the digit-count boundaries of decimal numeric
    // character references (999|1000, 9999|10000, 99999|100000, 999999|1000000)
    0x3E7, 0x3E8, 0x270F, 0x2710, 0x2711, 0x1869F, 0x186A0, 0xF423F, 0xF4240,
];

fn scalar_from(v: u32) -> char {
    char::from_u32(v).unwrap_or('\u{FFFD}')
}

/// Random scalar value, surrogates skipped.
fn any_scalar(rng: &mut Rng) -> char {
    loop {
        let v = rng.below(0x110000) as u32;
        if let Some(c) = char::from_u32(v) {
            return c;
        }
    }
}

#[derive(Clone, Copy, Debug, PartialEq, Eq)]
pub enum Unit {
    Scalar(char),
    /// an unpaired surrogate (UTF-16 form only; U+FFFD in the UTF-8 form)
    Lone(u16),
}

/// Text profile for one run.
pub struct TextCfg {
    pub len: usize,
    /// base of a block of 48 consecutive scalar values that this run sweeps
    pub sweep_base: Option<u32>,
    pub ascii_pct: u32,
    pub lone_surrogates: bool,
    /// long ASCII runs (stride paths)
    pub runs: bool,
}

pub fn gen_text(rng: &mut Rng, cfg: &TextCfg) -> Vec<Unit> {
    let mut out: Vec<Unit> = Vec::with_capacity(cfg.len);
    while out.len() < cfg.len {
        if cfg.runs && rng.chance(1, 6) {
            // a run of one repeated character whose length straddles the stride
            // sizes: mostly ASCII, sometimes a non-ASCII character (8- and
            // 16-unit vectors full of the same non-ASCII unit, right after an
            // ASCII run of any length)
            let n = rng.pick(&[1usize, 7, 8, 9, 15, 16, 17, 24, 31, 32, 33, 47, 63, 64, 65, 100]);
            let c = if rng.chance(2, 3) { rng.pick(&['a', 'b', ' ', '0']) } else { scalar_from(rng.pick(CLASS_ALPHABET)) };
            for _ in 0..n.min(cfg.len - out.len()) {
                out.push(Unit::Scalar(c));
            }
            continue;
        }
        let r = rng.below(100) as u32;
        let u = if r < cfg.ascii_pct {
            Unit::Scalar(if rng.chance(3, 4) { rng.pick(&['a', 'b', 'c', 'x', '1', ' ']) } else { rng.pick(ASCII_EDGE) })
        } else if let (Some(base), true) = (cfg.sweep_base, rng.chance(1, 2)) {
            let mut v = base + rng.below(48) as u32;
            if (0xD800..0xE000).contains(&v) {
                v += 0x800;
            }
            if v > 0x10FFFF {
                v = 0x10FFFF;
            }
            Unit::Scalar(scalar_from(v))
        } else if cfg.lone_surrogates && rng.chance(1, 8) {
            Unit::Lone(rng.pick(&[0xD800u16, 0xD83D, 0xDBFF, 0xDC00, 0xDCA9, 0xDFFF]))
        } else if rng.chance(1, 12) {
            Unit::Scalar(any_scalar(rng))
        } else {
            Unit::Scalar(scalar_from(rng.pick(CLASS_ALPHABET)))
        };
        // a lone high surrogate directly followed by a lone low one would be
        // a pair: never generate that adjacency
        if let (Some(Unit::Lone(h)), Unit::Lone(l)) = (out.last(), u) {
            if (0xD800..0xDC00).contains(h) && (0xDC00..0xE000).contains(&l) {
                continue;
            }
        }
        out.push(u);
    }
    out
}

pub fn text_to_utf16(t: &[Unit]) -> (Vec<u16>, Vec<usize>) {
    let mut v = Vec::new();
    let mut bounds = vec![0usize];
    for u in t {
        match *u {
            Unit::Scalar(c) => {
                let mut b = [0u16; 2];
                v.extend_from_slice(c.encode_utf16(&mut b));
            }
            Unit::Lone(s) => v.push(s),
        }
        bounds.push(v.len());
    }
    (v, bounds)
}

pub fn text_to_utf8(t: &[Unit]) -> (String, Vec<usize>) {
    let mut s = String::new();
    let mut bounds = vec![0usize];
    for u in t {
        match *u {
            Unit::Scalar(c) => s.push(c),
            Unit::Lone(_) => s.push('\u{FFFD}'),
        }
        bounds.push(s.len());
    }
    (s, bounds)
}

/// The scalar values an encoder is to see (lone surrogates as U+FFFD).
pub fn text_scalars(t: &[Unit]) -> Vec<char> {
    t.iter()
        .map(|u| match *u {
            Unit::Scalar(c) => c,
            Unit::Lone(_) => '\u{FFFD}',
        })
        .collect()
}

/// Tiny mode (Miri, where every interpreted instruction is expensive): only
/// short streams and small sinks are generated.
static TINY: std::sync::atomic::AtomicBool = std::sync::atomic::AtomicBool::new(cfg!(miri));
pub fn set_tiny(on: bool) {
    TINY.store(on, std::sync::atomic::Ordering::Relaxed);
}
pub fn tiny() -> bool {
    TINY.load(std::sync::atomic::Ordering::Relaxed)
}

pub fn draw_text_cfg(rng: &mut Rng, long: bool, utf16: bool) -> TextCfg {
    let long = long && !tiny();
    // a middle class of texts (24..96 characters) that also contain stride-sized runs
    let medium = !long && !tiny() && rng.chance(1, 8);
    let len = if long {
        rng.range(40, 700)
    } else if medium {
        rng.range(24, 96)
    } else if tiny() {
        rng.range(0, 8)
    } else {
        rng.range(0, 24)
    };
    TextCfg {
        len,
        sweep_base: if rng.chance(1, 3) { Some((rng.below(0x110000 / 48) * 48) as u32) } else { None },
        ascii_pct: rng.pick(&[0u32, 20, 40, 60, 85]),
        lone_surrogates: utf16 && rng.chance(1, 2),
        runs: long || medium,
    }
}

// ---------------------------------------------------------------------
// decoder byte streams

#[derive(Clone, Debug, Default)]
pub struct DecStream {
    pub bytes: Vec<u8>,
    pub strategy: &'static str,
    pub corrupt: bool,
    pub truncate: bool,
    pub bom_prefix: bool,
}

fn edge_alphabet(f: Family) -> &'static [u8] {
    match f {
        Family::Big5 => &[0x80, 0x81, 0x87, 0x88, 0xA1, 0xA3, 0xC6, 0xC7, 0xF9, 0xFE, 0xFF, 0x40, 0x7E, 0x7F, 0xA0, 0x62, 0x64, 0x66, 0xA7, 0xA9],
        Family::EucJp => &[0x8E, 0x8F, 0xA1, 0xA2, 0xDF, 0xE0, 0xFE, 0xFF, 0x80, 0xA0, 0xB0, 0xF4, 0xF5, 0x5C, 0x7E],
        Family::EucKr => &[0x80, 0x81, 0xA1, 0xC6, 0xC7, 0xFE, 0xFF, 0x41, 0x5A, 0x5B, 0x61, 0x7A, 0x7B, 0xB0, 0xC8, 0xFD],
        Family::Gbk | Family::Gb18030 => &[
            0x80, 0x81, 0x84, 0x90, 0xE3, 0xFE, 0xFF, 0x30, 0x31, 0x32, 0x35, 0x39, 0x3A, 0x2F, 0x40, 0x7E, 0x7F, 0xA4, 0x9A, 0xF4, 0x37, 0xA1, 0xA2, 0xA8, 0xBF,
        ],
        Family::Iso2022Jp => &[0x1B, 0x24, 0x28, 0x40, 0x42, 0x49, 0x4A, 0x0E, 0x0F, 0x21, 0x7E, 0x7F, 0x5C, 0x80, 0x5F, 0x60, 0x30],
        Family::ShiftJis => &[0x80, 0x81, 0x9F, 0xA0, 0xA1, 0xDF, 0xE0, 0xEF, 0xF0, 0xF9, 0xFC, 0xFD, 0xFF, 0x3F, 0x40, 0x7E, 0x7F, 0x9E, 0x5C],
        Family::Utf8 => &[
            0x80, 0xBF, 0xC0, 0xC1, 0xC2, 0xDF, 0xE0, 0xA0, 0x9F, 0xED, 0xEE, 0xEF, 0xF0, 0x90, 0x8F, 0xF4, 0xF5, 0xFF, 0xBB, 0xFE, 0xE2, 0x82, 0xAC, 0xF3,
        ],
        Family::Utf16Be | Family::Utf16Le => &[0xD8, 0xDB, 0xDC, 0xDF, 0x00, 0x61, 0xFF, 0xFE, 0xFD, 0xD7, 0xE0, 0x3D, 0xA9],
        Family::Replacement => &[0x00, 0x61, 0x80, 0xFF],
        Family::XUserDefined | Family::SingleByte => &[0x80, 0x81, 0x8D, 0x90, 0x98, 0xA0, 0xA1, 0xD2, 0xDB, 0xFD, 0xFE, 0xFF, 0xCA, 0xAA],
    }
}

const BOM_PREFIXES: &[&[u8]] = &[
    &[0xEF],
    &[0xEF, 0xBB],
    &[0xEF, 0xBB, 0xBF],
    &[0xFE],
    &[0xFE, 0xFF],
    &[0xFF],
    &[0xFF, 0xFE],
    &[0xEF, 0xBB, 0x61],
    &[0xEF, 0xBB, 0xBB],
    &[0xEF, 0xBB, 0xEF],
    &[0xEF, 0xBF],
    &[0xEF, 0x61],
    &[0xEF, 0xEF],
    &[0xFE, 0x61],
    &[0xFE, 0xFE],
    &[0xFF, 0x61],
    &[0xFF, 0xFF],
    &[0xBB, 0xBF],
    &[0xEF, 0xBB, 0xBF, 0xEF, 0xBB, 0xBF],
    &[0xFE, 0xFF, 0xFE, 0xFF],
    &[0xFF, 0xFE, 0xFF, 0xFE],
    &[0xFF, 0xFE, 0x00, 0x00],
    &[0xEF, 0xFE, 0xFF],
    &[0xFE, 0xEF, 0xBB, 0xBF],
];

/// Encode text with the crate's own encoder (unmappable characters are
/// simply left out). UTF-16 is produced by hand because the crate has no
/// UTF-16 encoder.
pub fn encode_well_formed(enc: &'static Encoding, text: &[char]) -> Vec<u8> {
    match family(enc) {
        Family::Utf16Be | Family::Utf16Le => {
            let be = enc == UTF_16BE;
            let mut out = Vec::new();
            for &c in text {
                let mut b = [0u16; 2];
                for &u in c.encode_utf16(&mut b).iter() {
                    if be {
                        out.push((u >> 8) as u8);
                        out.push(u as u8);
                    } else {
                        out.push(u as u8);
                        out.push((u >> 8) as u8);
                    }
                }
            }
            out
        }
        _ => {
            let s: String = text.iter().collect();
            let mut encoder = enc.new_encoder();
            let mut out = vec![0u8; s.len() * 4 + 32];
            let mut total_read = 0usize;
            let mut total_written = 0usize;
            let mut guard = 0usize;
            loop {
                guard += 1;
                // the encoder is code under test: a panic in it must not take the
                // harness down (the workload just ends here)
                let r = crate::sink::guard(|| encoder.encode_from_utf8_without_replacement(&s[total_read..], &mut out[total_written..], true));
                let (res, read, written) = match r {
                    Ok(t) => t,
                    Err(_) => break,
                };
                if total_read + read > s.len() || total_written + written > out.len() || !s.is_char_boundary(total_read + read) {
                    break;
                }
                total_read += read;
                total_written += written;
                match res {
                    EncoderResult::InputEmpty => break,
                    EncoderResult::Unmappable(_) => {}
                    EncoderResult::OutputFull => {
                        let l = out.len();
                        out.resize(l * 2 + 16, 0);
                    }
                }
                if guard > 10_000 {
                    break;
                }
            }
            out.truncate(total_written);
            out
        }
    }
}

/// Family-specific fragments: escape sequences and their prefixes, multi-byte
/// prefixes, shift bytes, surrogate halves.
fn fragments(f: Family) -> &'static [&'static [u8]] {
    match f {
        Family::Iso2022Jp => &[
            &[0x1B, 0x28, 0x42], &[0x1B, 0x28, 0x4A], &[0x1B, 0x24, 0x42], &[0x1B, 0x24, 0x40], &[0x1B, 0x28, 0x49], &[0x1B], &[0x1B, 0x24], &[0x1B, 0x28],
            &[0x1B, 0x24, 0x41], &[0x1B, 0x1B], &[0x24, 0x22], &[0x30, 0x21], &[0x24], &[0x7E, 0x7E], &[0x21, 0x21], &[0x0E], &[0x0F], &[0x5C], &[0x7E], &[0x31], &[0x5F],
        ],
        Family::Gbk | Family::Gb18030 => &[
            &[0x81, 0x30], &[0x81, 0x30, 0x81], &[0x81, 0x30, 0x81, 0x30], &[0x84, 0x31, 0xA4, 0x39], &[0x84, 0x31, 0xA4], &[0x90, 0x30, 0x81, 0x30], &[0xE3, 0x32, 0x9A, 0x35],
            &[0xE3, 0x32, 0x9A, 0x36], &[0x81, 0x35, 0xF4, 0x37], &[0xFE, 0x39, 0xFE, 0x39], &[0x81], &[0x81, 0x40], &[0x81, 0x7F], &[0xA8, 0xBF], &[0x80], &[0xFF], &[0x81, 0x30, 0x41],
            &[0x81, 0x30, 0x81, 0x41], &[0xA6, 0xD9], &[0xFE, 0x59],
        ],
        Family::EucJp => &[&[0x8E], &[0x8F], &[0x8E, 0xA1], &[0x8E, 0xE0], &[0x8F, 0xA1], &[0x8F, 0xA2, 0xAF], &[0x8F, 0xA1, 0x41], &[0x8F, 0x41], &[0xA4, 0xA2], &[0xA4], &[0xA1, 0x41], &[0xFE, 0xFE], &[0xA0]],
        Family::ShiftJis => &[&[0x81], &[0x81, 0x40], &[0x82, 0xA0], &[0xE0], &[0xFC, 0xFC], &[0xF0, 0x40], &[0xA1], &[0xDF], &[0x81, 0x3F], &[0x81, 0x7F], &[0x80], &[0xA0], &[0xFD]],
        Family::Big5 => &[&[0x87, 0x40], &[0x88, 0x62], &[0x88, 0x64], &[0x88, 0xA3], &[0x88, 0xA5], &[0xA4, 0x40], &[0xA4], &[0x81, 0x40], &[0xFE, 0xFE], &[0xA4, 0x7F], &[0xA4, 0x30], &[0xC8, 0x7C], &[0x80], &[0xFF]],
        Family::EucKr => &[&[0x81, 0x41], &[0xB0, 0xA1], &[0xB0], &[0xC6, 0x52], &[0xC6, 0x53], &[0xFE, 0xFE], &[0x81, 0x5B], &[0x81, 0x30], &[0x80], &[0xFF], &[0xC7, 0x41]],
        Family::Utf8 => &[
            &[0xC3], &[0xC3, 0xA9], &[0xE2], &[0xE2, 0x82], &[0xE2, 0x82, 0xAC], &[0xF0], &[0xF0, 0x9F], &[0xF0, 0x9F, 0x92], &[0xF0, 0x9F, 0x92, 0xA9], &[0xE0, 0x80], &[0xE0, 0xA0], &[0xED, 0xA0],
            &[0xED, 0x9F], &[0xF0, 0x80], &[0xF0, 0x90], &[0xF4, 0x90], &[0xF4, 0x8F], &[0xC0, 0x80], &[0xC1], &[0xF5], &[0x80], &[0xBF], &[0xEF, 0xBB, 0xBF], &[0xEF, 0xBF, 0xBD], &[0xE1, 0x80],
        ],
        Family::Utf16Be => &[&[0xD8, 0x3D], &[0xDC, 0xA9], &[0xD8, 0x3D, 0xDC, 0xA9], &[0xD8], &[0x00], &[0x00, 0x61], &[0x00, 0x00], &[0xDB, 0xFF], &[0xDF, 0xFF], &[0xFF, 0xFE], &[0xFE, 0xFF], &[0x4E, 0x00], &[0xD8, 0x3D, 0xD8, 0x3D]],
        Family::Utf16Le => &[&[0x3D, 0xD8], &[0xA9, 0xDC], &[0x3D, 0xD8, 0xA9, 0xDC], &[0x3D], &[0x00], &[0x61, 0x00], &[0x00, 0x00], &[0xFF, 0xDB], &[0xFF, 0xDF], &[0xFF, 0xFE], &[0xFE, 0xFF], &[0x00, 0x4E], &[0x3D, 0xD8, 0x3D, 0xD8]],
        _ => &[&[0x80], &[0xFF], &[0xA0], &[0xEF], &[0xBB], &[0xFE], &[0x81], &[0x8D]],
    }
}

/// Token grammar: a stream is a short concatenation of well-formed encoded
/// characters, *prefixes* of such (truncated sequences), family-specific
/// fragments (escapes and their prefixes, shift bytes, range edges), edge
/// bytes and ASCII - so that an unfinished sequence is followed by every kind
/// of thing that can follow it.
fn gen_token_stream(rng: &mut Rng, enc: &'static Encoding, fam: Family, long: bool) -> Vec<u8> {
    let n = if long { rng.range(20, 200) } else if tiny() { rng.range(1, 4) } else { rng.range(1, 7) };
    let mut out = Vec::new();
    for _ in 0..n {
        match rng.below(12) {
            0..=2 => {
                let k = rng.range(1, 2);
                let t: Vec<char> = (0..k).map(|_| scalar_from(rng.pick(CLASS_ALPHABET))).collect();
                out.extend_from_slice(&encode_well_formed(enc, &t));
            }
            3..=4 => {
                let t = [scalar_from(rng.pick(CLASS_ALPHABET))];
                let e = encode_well_formed(enc, &t);
                if e.len() > 1 {
                    let k = rng.range(1, e.len() - 1);
                    out.extend_from_slice(&e[..k]);
                } else {
                    out.extend_from_slice(&e);
                }
            }
            5..=8 => out.extend_from_slice(rng.pick(fragments(fam))),
            9 => out.push(rng.pick(edge_alphabet(fam))),
            _ => out.push(rng.pick(&[b'a', b'A', b'0', b'9', b' ', 0x7F, 0x00, b'\\', b'~'])),
        }
    }
    out
}

/// Systematic part of the decoder workload: stream number `idx` of the
/// enumeration of all sequences of one, two, then three tokens over the
/// family's fragments, edge bytes and a few ASCII bytes (wrapping around).
/// The schedule (cuts, capacities, sink kinds, faults) stays seeded-random.
pub fn enumerated_stream(enc: &'static Encoding, idx: u64) -> Vec<u8> {
    let fam = family(enc);
    let mut tokens: Vec<Vec<u8>> = fragments(fam).iter().map(|f| f.to_vec()).collect();
    for &b in edge_alphabet(fam) {
        if !tokens.iter().any(|t| t.len() == 1 && t[0] == b) {
            tokens.push(vec![b]);
        }
    }
    for b in [b'a', b'0', 0x7Fu8] {
        if !tokens.iter().any(|t| t.len() == 1 && t[0] == b) {
            tokens.push(vec![b]);
        }
    }
    let n = tokens.len() as u64;
    let total = n + n * n + n * n * n;
    let mut i = idx % total;
    let len = if i < n {
        1
    } else if i < n + n * n {
        i -= n;
        2
    } else {
        i -= n + n * n;
        3
    };
    let mut out = Vec::new();
    for _ in 0..len {
        out.extend_from_slice(&tokens[(i % n) as usize]);
        i /= n;
    }
    out
}

pub fn gen_dec_stream(rng: &mut Rng, enc: &'static Encoding, long: bool, bom_bias: bool) -> DecStream {
    let fam = family(enc);
    let mut st = DecStream::default();
    let long = long && !tiny();
    let strat = if long { rng.weighted(&[2, 1, 0, 4, 2]) } else { rng.weighted(&[4, 3, 1, 0, 5]) };
    let mut bytes: Vec<u8> = match strat {
        0 => {
            // (a) well-formed text through the crate's own encoder
            st.strategy = "encoded-text";
            let cfg = draw_text_cfg(rng, long, false);
            let t = gen_text(rng, &cfg);
            encode_well_formed(enc, &text_scalars(&t))
        }
        1 => {
            // (b) edge alphabet
            st.strategy = "edge-alphabet";
            let n = if long { rng.range(40, 400) } else if tiny() { rng.range(0, 10) } else { rng.range(0, 20) };
            let alpha = edge_alphabet(fam);
            (0..n)
                .map(|_| match rng.below(20) {
                    0..=11 => rng.pick(alpha),
                    12..=16 => rng.pick(&[0x30u8, 0x39, 0x40, 0x7E, 0x7F, b'a', b'a', b'b', 0x41, 0x5B]),
                    _ => rng.below(256) as u8,
                })
                .collect()
        }
        4 => {
            st.strategy = "token-grammar";
            gen_token_stream(rng, enc, fam, long)
        }
        2 => {
            // all-ASCII (the only kind of stream for which most decoders
            // stay in their fast path)
            st.strategy = "ascii";
            let n = rng.range(0, 40);
            (0..n).map(|_| rng.pick(&[b'a', b'b', b' ', b'0', b'\n'])).collect()
        }
        _ => {
            // (d) long runs with planted non-ASCII and one defect
            st.strategy = "long-runs";
            let cfg = TextCfg { len: rng.range(64, 1500), sweep_base: None, ascii_pct: rng.pick(&[70u32, 90, 97]), lone_surrogates: false, runs: true };
            let t = gen_text(rng, &cfg);
            let mut b = encode_well_formed(enc, &text_scalars(&t));
            // plant a few defects: bytes that are (mostly) malformed on their own,
            // at PRNG-chosen offsets inside the runs, sometimes two of them 16-31
            // bytes apart (both halves of a double stride)
            if !b.is_empty() && rng.chance(2, 3) {
                let k = rng.range(1, 3);
                let mut at = rng.below(b.len());
                for _ in 0..k {
                    b[at] = rng.pick(&[0xFFu8, 0xC0, 0xE1, 0xF5, 0x80, 0xAA, 0xFE, 0xE2, 0xD8]);
                    at = (at + rng.range(1, 40)).min(b.len() - 1);
                }
            }
            b
        }
    };
    // (c) BOM prefixes and look-alikes in front
    let want_bom = if bom_bias { rng.chance(7, 8) } else { rng.chance(1, 6) };
    if want_bom {
        st.bom_prefix = true;
        let p = BOM_PREFIXES[rng.below(BOM_PREFIXES.len())];
        let mut b = p.to_vec();
        b.extend_from_slice(&bytes);
        bytes = b;
    }
    // corrupt: flip / drop / duplicate one byte of the stream
    if !bytes.is_empty() && rng.chance(1, 4) {
        st.corrupt = true;
        let i = rng.below(bytes.len());
        match rng.below(4) {
            0 => bytes[i] ^= 1 << rng.below(8),
            1 => {
                bytes.remove(i);
            }
            2 => {
                let b = bytes[i];
                bytes.insert(i, b);
            }
            _ => bytes[i] = rng.pick(edge_alphabet(fam)),
        }
    }
    // truncate: connection reset at an arbitrary byte
    if !bytes.is_empty() && rng.chance(1, 5) {
        st.truncate = true;
        let n = rng.below(bytes.len());
        bytes.truncate(n);
    }
    st.bytes = bytes;
    st
}

/// Positions that fall inside a multi-unit sequence, a potential BOM or an
/// escape (heuristic on the bytes; used only to bias where segments end).
pub fn hot_cuts(enc: &'static Encoding, s: &[u8]) -> Vec<usize> {
    let fam = family(enc);
    let mut v = Vec::new();
    for p in 1..s.len() {
        let prev = s[p - 1];
        let hot = match fam {
            Family::Utf16Be | Family::Utf16Le => p % 4 != 0,
            Family::Iso2022Jp => true,
            _ => prev >= 0x80 || prev == 0x1B || (p >= 2 && s[p - 2] >= 0x81 && (0x30..=0x39).contains(&prev)) || p < 4,
        };
        if hot {
            v.push(p);
        }
    }
    v
}
