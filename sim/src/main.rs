//! encsim — deterministic simulation of encoding_rs's streaming seam.
//!
//!   encsim run <Cxx> [--tier quick|thorough] [--runs N | --secs S] [--seed N]
//!              [--threads N] [--evidence FILE] [--replay-dir DIR] [--known FILE]
//!              [--substrate NAME] [--force-skip-fast] [--start N]
//!   encsim replay <file>
//!   encsim digest <Cxx> --runs N [--seed N] [--per-run FROM..TO] [--force-skip-fast]
//!   encsim trace <Cxx> --run N [--seed N] [--force-skip-fast]
//!   encsim determinism <Cxx> --runs N [--seed N]
//!
//! Exit codes: 0 held, 1 violation (with a VIOLATION line), 2 harness error.

#![allow(unused_parens, dead_code)]
mod batch;
mod dec;
mod enc;
mod encs;
mod gen;
mod memfn;
mod memsink;
mod ops;
mod props;
mod rng;
mod sink;

use batch::*;
use std::path::PathBuf;

fn arg_val(args: &[String], name: &str) -> Option<String> {
    args.iter().position(|a| a == name).and_then(|i| args.get(i + 1)).cloned()
}

fn main() {
    let args: Vec<String> = std::env::args().collect();
    sink::install_panic_hook();
    if args.len() < 2 {
        eprintln!("usage: encsim run|replay|digest|trace|determinism ...");
        std::process::exit(2);
    }
    let seed: u64 = arg_val(&args, "--seed").and_then(|s| s.parse().ok()).unwrap_or(1);
    let threads: usize = arg_val(&args, "--threads").and_then(|s| s.parse().ok()).unwrap_or_else(|| if cfg!(miri) { 1 } else { std::thread::available_parallelism().map(|n| n.get()).unwrap_or(4) });
    let force_skip = args.iter().any(|a| a == "--force-skip-fast") || cfg!(miri);
    let no_skip = args.iter().any(|a| a == "--no-skip-fast");
    if args.iter().any(|a| a == "--print-index") {
        sink::set_print_index(true);
    }
    sink::install_death_note(args.get(2).map(|s| s.as_str()).unwrap_or(""), arg_val(&args, "--death-note"));
    if args.iter().any(|a| a == "--tiny") {
        gen::set_tiny(true);
    }
    if args.iter().any(|a| a == "--exact-end") {
        sink::set_tail_canary(false);
    }
    match args[1].as_str() {
        "run" => {
            let prop = args.get(2).cloned().unwrap_or_default();
            let tier = arg_val(&args, "--tier").unwrap_or_else(|| "quick".into());
            let secs: f64 = arg_val(&args, "--secs").and_then(|s| s.parse().ok()).unwrap_or(0.0);
            let runs: u64 = arg_val(&args, "--runs").and_then(|s| s.parse().ok()).unwrap_or(100_000);
            let cfg = BatchCfg {
                prop,
                tier,
                seed,
                runs,
                secs,
                threads,
                evidence: arg_val(&args, "--evidence").map(PathBuf::from),
                replay_dir: PathBuf::from(arg_val(&args, "--replay-dir").unwrap_or_else(|| "/verif/replays".into())),
                known: PathBuf::from(arg_val(&args, "--known").unwrap_or_else(|| "/verif/known_findings.json".into())),
                substrate: arg_val(&args, "--substrate").unwrap_or_else(|| "native".into()),
                force_skip_fast: force_skip,
                no_skip_fast: no_skip,
                start: arg_val(&args, "--start").and_then(|s| s.parse().ok()).unwrap_or(0),
                stats_out: arg_val(&args, "--stats-out").map(PathBuf::from),
            };
            let r = run_batch(&cfg);
            if let Some(e) = r.harness_error {
                eprintln!("HARNESS ERROR: {}", e);
                std::process::exit(2);
            }
            std::process::exit(if r.violations > 0 { 1 } else { 0 });
        }
        "replay" => {
            let path = PathBuf::from(args.get(2).cloned().unwrap_or_default());
            if let Ok(text) = std::fs::read_to_string(&path) {
                if let Ok(v) = serde_json::from_str::<serde_json::Value>(&text) {
                    if v.get("kind").and_then(|k| k.as_str()) == Some("seed") {
                        std::process::exit(batch::replay_seed(&v, &path));
                    }
                }
            }
            match replay_file(&path) {
                Err(e) => {
                    eprintln!("HARNESS ERROR: {}", e);
                    std::process::exit(2);
                }
                Ok((prop, Some(v), _)) => {
                    println!("reproduced: oracle={} detail: {}", v.oracle, v.detail);
                    println!("VIOLATION property={} replay={}", prop, path.display());
                    std::process::exit(1);
                }
                Ok((prop, None, _)) => {
                    println!("replay of {}: no violation of {} reproduced on this tree", path.display(), prop);
                    std::process::exit(0);
                }
            }
        }
        "digest" => {
            // per-block transcript digests for cross-build comparison (C17)
            let prop = args.get(2).cloned().unwrap_or_default();
            let runs: u64 = arg_val(&args, "--runs").and_then(|s| s.parse().ok()).unwrap_or(100_000);
            let start: u64 = arg_val(&args, "--start").and_then(|s| s.parse().ok()).unwrap_or(0);
            let block: u64 = arg_val(&args, "--block").and_then(|s| s.parse().ok()).unwrap_or(1000);
            let propc = match props::CLAIMED.iter().copied().find(|p| *p == prop) {
                Some(p) => p,
                None => {
                    eprintln!("HARNESS ERROR: unknown property");
                    std::process::exit(2);
                }
            };
            batch::set_skip_fast_hook(force_skip);
            let nblocks = (runs + block - 1) / block;
            let next = std::sync::atomic::AtomicU64::new(0);
            let out = std::sync::Mutex::new(vec![(0u64, 0u64, 0u64); nblocks as usize]);
            std::thread::scope(|s| {
                for _ in 0..threads {
                    s.spawn(|| loop {
                        let b = next.fetch_add(1, std::sync::atomic::Ordering::Relaxed);
                        if b >= nblocks {
                            break;
                        }
                        let mut d = rng::Digest::new();
                        let mut calls = 0u64;
                        let mut nontrivial = 0u64;
                        let lo = start + b * block;
                        let hi = (lo + block).min(start + runs);
                        for i in lo..hi {
                            let (_case, o) = batch::run_one(propc, seed, i, force_skip);
                            d.u64(o.transcript);
                            calls += o.calls as u64;
                            nontrivial += o.nontrivial as u64;
                        }
                        out.lock().unwrap()[b as usize] = (d.finish(), calls, nontrivial);
                    });
                }
            });
            for (b, (d, c, n)) in out.into_inner().unwrap().iter().enumerate() {
                println!("{} {:016x} {} {}", start + b as u64 * block, d, c, n);
            }
        }
        "trace" => {
            // full transcript of one run (C17 replay, debugging)
            let prop = args.get(2).cloned().unwrap_or_default();
            let run: u64 = arg_val(&args, "--run").and_then(|s| s.parse().ok()).unwrap_or(0);
            let propc = props::CLAIMED.iter().copied().find(|p| *p == prop).unwrap_or("C02");
            let skip = force_skip || (!no_skip && rng::mix64(seed ^ run.wrapping_mul(0xD6E8_FEB8_6659_FD93)) % 6 == 0);
            batch::set_skip_fast_hook(skip);
            sink::set_log_calls(args.iter().any(|a| a == "--calls"));
            let (case, o) = batch::run_one(propc, seed, run, skip);
            let j = serde_json::json!({"run_index": run, "seed": seed, "case": case.to_json(), "calls": o.calls, "events": o.events, "call_log": sink::take_call_log(),
                "transcript": format!("{:016x}", o.transcript), "finished": o.finished, "aborted": o.aborted,
                "viols": o.viols.iter().map(|v| format!("{}/{}: {}", v.prop, v.oracle, v.detail)).collect::<Vec<_>>()});
            println!("{}", serde_json::to_string_pretty(&j).unwrap());
        }
        "determinism" => {
            // event-log digests of every run, for diffing between processes
            let prop = args.get(2).cloned().unwrap_or_default();
            let runs: u64 = arg_val(&args, "--runs").and_then(|s| s.parse().ok()).unwrap_or(20_000);
            let propc = props::CLAIMED.iter().copied().find(|p| *p == prop).unwrap_or("C02");
            let next = std::sync::atomic::AtomicU64::new(0);
            let out = std::sync::Mutex::new(vec![0u64; runs as usize]);
            for pass in [false, true] {
                batch::set_skip_fast_hook(pass);
                next.store(0, std::sync::atomic::Ordering::Relaxed);
                std::thread::scope(|s| {
                    for _ in 0..threads {
                        s.spawn(|| loop {
                            let i = next.fetch_add(1, std::sync::atomic::Ordering::Relaxed);
                            if i >= runs {
                                break;
                            }
                            let skip = rng::mix64(seed ^ i.wrapping_mul(0xD6E8_FEB8_6659_FD93)) % 6 == 0;
                            if skip != pass {
                                continue;
                            }
                            let (case, o) = batch::run_one(propc, seed, i, skip);
                            let mut d = rng::Digest::new();
                            d.u64(o.transcript);
                            d.u64(o.sig);
                            d.usize(o.calls);
                            d.usize(o.events);
                            d.usize(o.viols.len());
                            d.bytes(serde_json::to_string(&case.to_json()).unwrap().as_bytes());
                            out.lock().unwrap()[i as usize] = d.finish();
                        });
                    }
                });
            }
            for (i, d) in out.into_inner().unwrap().iter().enumerate() {
                println!("{} {:016x}", i, d);
            }
        }
        _ => {
            eprintln!("unknown command");
            std::process::exit(2);
        }
    }
}
