//! The 40 encodings, grouped the way the converters are implemented.

use encoding_rs::*;

#[derive(Clone, Copy, Debug, PartialEq, Eq, Hash)]
pub enum Family {
    SingleByte,
    Utf8,
    Utf16Be,
    Utf16Le,
    Big5,
    EucJp,
    EucKr,
    Gbk,
    Gb18030,
    Iso2022Jp,
    ShiftJis,
    Replacement,
    XUserDefined,
}

pub static ALL: [&Encoding; 40] = [
    BIG5,
    EUC_JP,
    EUC_KR,
    GBK,
    GB18030,
    IBM866,
    ISO_2022_JP,
    ISO_8859_2,
    ISO_8859_3,
    ISO_8859_4,
    ISO_8859_5,
    ISO_8859_6,
    ISO_8859_7,
    ISO_8859_8,
    ISO_8859_8_I,
    ISO_8859_10,
    ISO_8859_13,
    ISO_8859_14,
    ISO_8859_15,
    ISO_8859_16,
    KOI8_R,
    KOI8_U,
    MACINTOSH,
    REPLACEMENT,
    SHIFT_JIS,
    UTF_16BE,
    UTF_16LE,
    UTF_8,
    WINDOWS_874,
    WINDOWS_1250,
    WINDOWS_1251,
    WINDOWS_1252,
    WINDOWS_1253,
    WINDOWS_1254,
    WINDOWS_1255,
    WINDOWS_1256,
    WINDOWS_1257,
    WINDOWS_1258,
    X_MAC_CYRILLIC,
    X_USER_DEFINED,
];

/// The multi-byte / special ones, used to weight workloads towards the
/// converters that actually carry state between calls.
pub static STATEFUL: [&Encoding; 16] = [
    BIG5,
    EUC_JP,
    EUC_KR,
    GBK,
    GB18030,
    GB18030,
    ISO_2022_JP,
    ISO_2022_JP,
    ISO_2022_JP,
    SHIFT_JIS,
    UTF_16BE,
    UTF_16LE,
    UTF_8,
    REPLACEMENT,
    X_USER_DEFINED,
    WINDOWS_1252,
];

pub fn family(e: &'static Encoding) -> Family {
    if e == UTF_8 {
        Family::Utf8
    } else if e == UTF_16BE {
        Family::Utf16Be
    } else if e == UTF_16LE {
        Family::Utf16Le
    } else if e == BIG5 {
        Family::Big5
    } else if e == EUC_JP {
        Family::EucJp
    } else if e == EUC_KR {
        Family::EucKr
    } else if e == GBK {
        Family::Gbk
    } else if e == GB18030 {
        Family::Gb18030
    } else if e == ISO_2022_JP {
        Family::Iso2022Jp
    } else if e == SHIFT_JIS {
        Family::ShiftJis
    } else if e == REPLACEMENT {
        Family::Replacement
    } else if e == X_USER_DEFINED {
        Family::XUserDefined
    } else {
        Family::SingleByte
    }
}

pub fn by_name(name: &str) -> Option<&'static Encoding> {
    ALL.iter().copied().find(|e| e.name() == name)
}

pub fn index_of(e: &'static Encoding) -> usize {
    ALL.iter().position(|x| *x == e).unwrap()
}

/// Pick an encoding: half of the time from the stateful set, otherwise
/// uniformly from all 40.
pub fn pick(rng: &mut crate::rng::Rng) -> &'static Encoding {
    if rng.chance(3, 5) {
        STATEFUL[rng.below(STATEFUL.len())]
    } else {
        ALL[rng.below(ALL.len())]
    }
}
