//! DEC scenario: Transport(bytes) -> Pump(real Decoder) -> Sink, driven by an
//! `OpSource`. The pump is the documented caller loop; the decoder is the
//! real one. One driver serves the plain, replica (C18), peek (C19), manual
//! recovery (C09) and query (C07) modes: they differ only in how many
//! lock-step replicas there are and in what is varied between them.

use crate::ops::*;
use crate::rng::Digest;
use crate::sink::*;
use encoding_rs::*;

#[derive(Clone, Copy, Debug, PartialEq, Eq)]
pub enum Bom {
    Sniff,
    Remove,
    Off,
}

impl Bom {
    pub fn name(self) -> &'static str {
        match self {
            Bom::Sniff => "sniff",
            Bom::Remove => "remove",
            Bom::Off => "off",
        }
    }
    pub fn from_name(s: &str) -> Option<Bom> {
        match s {
            "sniff" => Some(Bom::Sniff),
            "remove" => Some(Bom::Remove),
            "off" => Some(Bom::Off),
            _ => None,
        }
    }
}

#[derive(Clone, Debug)]
pub struct DecSpec {
    pub enc: &'static Encoding,
    pub bom: Bom,
    pub repl: bool,
    pub form16: bool,
    pub stream: Vec<u8>,
    pub skip_fast: bool,
}

pub fn new_decoder(enc: &'static Encoding, bom: Bom) -> Decoder {
    match bom {
        Bom::Sniff => enc.new_decoder(),
        Bom::Remove => enc.new_decoder_with_bom_removal(),
        Bom::Off => enc.new_decoder_without_bom_handling(),
    }
}

#[derive(Clone, Copy, Debug, PartialEq, Eq)]
pub enum Res {
    InputEmpty,
    OutputFull,
    Malformed(u8, u8),
}

impl Res {
    pub fn code(self) -> u64 {
        match self {
            Res::InputEmpty => 0,
            Res::OutputFull => 1,
            Res::Malformed(l, a) => 2 + ((l as u64) << 8) + ((a as u64) << 16),
        }
    }
    pub fn name(self) -> String {
        match self {
            Res::InputEmpty => "InputEmpty".into(),
            Res::OutputFull => "OutputFull".into(),
            Res::Malformed(l, a) => format!("Malformed({},{})", l, a),
        }
    }
}

#[derive(Clone, Debug)]
pub struct Viol {
    pub prop: &'static str,
    pub oracle: &'static str,
    pub detail: String,
}

pub fn viol(prop: &'static str, oracle: &'static str, detail: String) -> Viol {
    Viol { prop, oracle, detail }
}

#[derive(Clone, Debug)]
pub struct CallOut {
    pub res: Res,
    pub read: usize,
    pub written: usize,
    pub had_errors: bool,
    pub out8: Vec<u8>,
    pub out16: Vec<u16>,
    pub cap_used: usize,
    pub panicked: Option<String>,
    pub viols: Vec<Viol>,
}

/// How a replica converts: the built-in method, or (C09) the documented
/// manual recovery on top of the without-replacement method.
#[derive(Clone, Copy, Debug, PartialEq, Eq)]
pub enum How {
    Builtin { repl: bool },
    Manual,
}

fn from_coder(r: CoderResult) -> Res {
    match r {
        CoderResult::InputEmpty => Res::InputEmpty,
        CoderResult::OutputFull => Res::OutputFull,
    }
}
fn from_decoder(r: DecoderResult) -> Res {
    match r {
        DecoderResult::InputEmpty => Res::InputEmpty,
        DecoderResult::OutputFull => Res::OutputFull,
        DecoderResult::Malformed(l, a) => Res::Malformed(l, a),
    }
}

pub fn valid_utf16(u: &[u16]) -> bool {
    char::decode_utf16(u.iter().copied()).all(|r| r.is_ok())
}

/// The documented manual recovery, written against the without-replacement
/// API only (independent of the built-in replacing loop).
fn manual_utf8(dec: &mut Decoder, src: &[u8], dst: &mut [u8], last: bool) -> Result<(Res, usize, usize, bool), String> {
    let (mut tr, mut tw, mut had) = (0usize, 0usize, false);
    loop {
        let (r, read, written) = dec.decode_to_utf8_without_replacement(&src[tr..], &mut dst[tw..], last);
        tr += read;
        tw += written;
        match r {
            DecoderResult::InputEmpty => return Ok((Res::InputEmpty, tr, tw, had)),
            DecoderResult::OutputFull => return Ok((Res::OutputFull, tr, tw, had)),
            DecoderResult::Malformed(_, _) => {
                had = true;
                if dst.len() - tw < 3 {
                    return Err(format!("no room for the U+FFFD owed after Malformed: written {} of {}", tw, dst.len()));
                }
                dst[tw..tw + 3].copy_from_slice(&[0xEF, 0xBF, 0xBD]);
                tw += 3;
            }
        }
    }
}

fn manual_utf16(dec: &mut Decoder, src: &[u8], dst: &mut [u16], last: bool) -> Result<(Res, usize, usize, bool), String> {
    let (mut tr, mut tw, mut had) = (0usize, 0usize, false);
    loop {
        let (r, read, written) = dec.decode_to_utf16_without_replacement(&src[tr..], &mut dst[tw..], last);
        tr += read;
        tw += written;
        match r {
            DecoderResult::InputEmpty => return Ok((Res::InputEmpty, tr, tw, had)),
            DecoderResult::OutputFull => return Ok((Res::OutputFull, tr, tw, had)),
            DecoderResult::Malformed(_, _) => {
                had = true;
                if dst.len() - tw < 1 {
                    return Err(format!("no room for the U+FFFD owed after Malformed: written {} of {}", tw, dst.len()));
                }
                dst[tw] = 0xFFFD;
                tw += 1;
            }
        }
    }
}

pub struct Stale {
    pub out8: Vec<u8>,
    pub out16: Vec<u16>,
}

/// Exactly one converter call on guarded memory, with all per-call
/// invariants (C05 / C06 oracles) evaluated.
#[allow(clippy::too_many_arguments)]
pub fn guarded_call(
    dec: &mut Decoder,
    how: How,
    form16: bool,
    src: &[u8],
    offer: &Offer,
    cap: usize,
    fill: u8,
    last: bool,
    stale: &Stale,
    in_contract: bool,
) -> CallOut {
    let mut viols: Vec<Viol> = Vec::new();
    let srcg = Guard8::from(src, offer.src_off as usize);
    let src_s = srcg.slice();
    let mut out = CallOut { res: Res::InputEmpty, read: 0, written: 0, had_errors: false, out8: Vec::new(), out16: Vec::new(), cap_used: cap, panicked: None, viols: Vec::new() };

    if form16 {
        let mut g = Guard16::new(cap, offer.dst_off as usize);
        fill_units(g.slice_mut(), fill, &stale.out16);
        let r = crate::sink::guard((|| {
            let d = g.slice_mut();
            match how {
                How::Builtin { repl: true } => {
                    let (r, rd, wr, he) = dec.decode_to_utf16(src_s, d, last);
                    Ok((from_coder(r), rd, wr, he))
                }
                How::Builtin { repl: false } => {
                    let (r, rd, wr) = dec.decode_to_utf16_without_replacement(src_s, d, last);
                    Ok((from_decoder(r), rd, wr, false))
                }
                How::Manual => manual_utf16(dec, src_s, d, last),
            }
        }));
        match r {
            Err(_) => {
                out.panicked = Some(take_panic());
            }
            Ok(Err(msg)) => {
                viols.push(viol("C09", "manual-recovery-no-room", msg));
                out.panicked = Some("manual recovery impossible".into());
            }
            Ok(Ok((res, rd, wr, he))) => {
                out.res = res;
                out.read = rd;
                out.written = wr;
                out.had_errors = he;
                if wr <= cap {
                    out.out16 = g.slice()[..wr].to_vec();
                }
            }
        }
        if !g.intact() {
            viols.push(viol("C06", "canary", format!("write outside the {}-unit UTF-16 destination", cap)));
        }
    } else {
        match offer.kind {
            K_STRING => {
                // prior valid contents, then exactly `cap` bytes of spare capacity
                let prior: &str = match offer.phase {
                    0 => "",
                    1 => "x",
                    2 => "\u{e9}\u{20ac}",
                    _ => "\u{1f4a9}z",
                };
                let mut s = String::with_capacity(prior.len() + cap);
                s.push_str(prior);
                let spare = s.capacity() - s.len();
                out.cap_used = spare;
                if !cfg!(miri) {
                    // garbage in the spare capacity (under Miri it stays
                    // genuinely uninitialised instead)
                    let v = unsafe { s.as_mut_vec() };
                    let sp = v.spare_capacity_mut();
                    let mut tmp = vec![0u8; sp.len()];
                    fill_bytes(&mut tmp, fill, &stale.out8);
                    for (d, b) in sp.iter_mut().zip(tmp.iter()) {
                        d.write(*b);
                    }
                }
                let (ptr0, cap0, len0) = (s.as_ptr() as usize, s.capacity(), s.len());
                let r = crate::sink::guard((|| match how {
                    How::Builtin { repl: true } => {
                        let (r, rd, he) = dec.decode_to_string(src_s, &mut s, last);
                        (from_coder(r), rd, he)
                    }
                    _ => {
                        let (r, rd) = dec.decode_to_string_without_replacement(src_s, &mut s, last);
                        (from_decoder(r), rd, false)
                    }
                }));
                let valid = std::str::from_utf8(s.as_bytes()).is_ok();
                match r {
                    Err(_) => {
                        out.panicked = Some(take_panic());
                        if !valid {
                            viols.push(viol("C05", "panic-left-invalid-string", "String invalid after unwinding".into()));
                        }
                    }
                    Ok((res, rd, he)) => {
                        out.res = res;
                        out.read = rd;
                        out.had_errors = he;
                        if s.as_ptr() as usize != ptr0 || s.capacity() != cap0 {
                            viols.push(viol("C06", "string-reallocated", format!("capacity {} -> {}", cap0, s.capacity())));
                        }
                        if s.len() < len0 || &s.as_bytes()[..len0] != prior.as_bytes() {
                            viols.push(viol("C06", "string-old-contents-changed", format!("prior {:?}", prior)));
                        } else {
                            out.written = s.len() - len0;
                            out.out8 = s.as_bytes()[len0..].to_vec();
                        }
                        if !valid {
                            viols.push(viol("C05", "string-invalid", format!("String not valid UTF-8 after call: {:02x?}", s.as_bytes())));
                        }
                    }
                }
            }
            K_STR => {
                let mut g = Guard8::new(cap, offer.dst_off as usize);
                fill_valid_utf8(g.slice_mut(), fill, offer.phase, &stale.out8);
                debug_assert!(std::str::from_utf8(g.slice()).is_ok());
                let r = crate::sink::guard((|| {
                    let d = std::str::from_utf8_mut(g.slice_mut()).expect("harness: filler must be valid UTF-8");
                    match how {
                        How::Builtin { repl: true } => {
                            let (r, rd, wr, he) = dec.decode_to_str(src_s, d, last);
                            (from_coder(r), rd, wr, he)
                        }
                        _ => {
                            let (r, rd, wr) = dec.decode_to_str_without_replacement(src_s, d, last);
                            (from_decoder(r), rd, wr, false)
                        }
                    }
                }));
                let valid = std::str::from_utf8(g.slice()).is_ok();
                match r {
                    Err(_) => {
                        out.panicked = Some(take_panic());
                        if !valid {
                            viols.push(viol("C05", "panic-left-invalid-str", format!("&mut str invalid after unwinding: {:02x?}", g.slice())));
                        }
                    }
                    Ok((res, rd, wr, he)) => {
                        out.res = res;
                        out.read = rd;
                        out.written = wr;
                        out.had_errors = he;
                        if wr <= cap {
                            out.out8 = g.slice()[..wr].to_vec();
                        }
                        if !valid {
                            viols.push(viol("C05", "str-invalid", format!("&mut str not valid UTF-8 after call (written {}): {:02x?}", wr, g.slice())));
                        }
                    }
                }
                if !g.intact() {
                    viols.push(viol("C06", "canary", format!("write outside the {}-byte &mut str destination", cap)));
                }
            }
            _ => {
                let mut g = Guard8::new(cap, offer.dst_off as usize);
                fill_bytes(g.slice_mut(), fill, &stale.out8);
                let r = crate::sink::guard((|| {
                    let d = g.slice_mut();
                    match how {
                        How::Builtin { repl: true } => {
                            let (r, rd, wr, he) = dec.decode_to_utf8(src_s, d, last);
                            Ok((from_coder(r), rd, wr, he))
                        }
                        How::Builtin { repl: false } => {
                            let (r, rd, wr) = dec.decode_to_utf8_without_replacement(src_s, d, last);
                            Ok((from_decoder(r), rd, wr, false))
                        }
                        How::Manual => manual_utf8(dec, src_s, d, last),
                    }
                }));
                match r {
                    Err(_) => {
                        out.panicked = Some(take_panic());
                    }
                    Ok(Err(msg)) => {
                        viols.push(viol("C09", "manual-recovery-no-room", msg));
                        out.panicked = Some("manual recovery impossible".into());
                    }
                    Ok(Ok((res, rd, wr, he))) => {
                        out.res = res;
                        out.read = rd;
                        out.written = wr;
                        out.had_errors = he;
                        if wr <= cap {
                            out.out8 = g.slice()[..wr].to_vec();
                        }
                    }
                }
                if !g.intact() {
                    viols.push(viol("C06", "canary", format!("write outside the {}-byte destination", cap)));
                }
            }
        }
    }

    if let Some(p) = &out.panicked {
        if in_contract && p != "manual recovery impossible" {
            viols.push(viol("C06", "panic-in-contract", format!("panic with src.len()={} cap={} last={}: {}", src.len(), out.cap_used, last, p)));
        }
    } else {
        if out.read > src.len() {
            viols.push(viol("C06", "read-exceeds-source", format!("read {} > src.len() {}", out.read, src.len())));
        }
        if out.written > out.cap_used {
            viols.push(viol("C06", "written-exceeds-destination", format!("written {} > dst.len() {}", out.written, out.cap_used)));
        }
        if out.res == Res::InputEmpty && out.read != src.len() {
            viols.push(viol("C06", "inputempty-with-unread-input", format!("InputEmpty but read {} of {}", out.read, src.len())));
        }
        // C05: what was reported as written is well-formed on its own
        if form16 {
            if !valid_utf16(&out.out16) {
                viols.push(viol("C05", "written-prefix-invalid-utf16", format!("{:04x?}", out.out16)));
            }
        } else if std::str::from_utf8(&out.out8).is_err() {
            viols.push(viol("C05", "written-prefix-invalid-utf8", format!("{:02x?}", out.out8)));
        }
    }
    out.viols = viols;
    out
}

// ---------------------------------------------------------------------
// driver

#[derive(Clone, Copy, Debug, PartialEq, Eq)]
pub enum DecMode {
    Plain,
    /// three replicas, different garbage in the sink (C18)
    Replicas,
    /// twin decoders; replica 0 is additionally peeked (C19)
    Peek,
    /// replica 0 built-in replacement, replica 1 manual recovery (C09)
    Manual,
}

#[derive(Clone, Debug)]
pub struct CallRec {
    pub src_len: usize,
    pub cap: usize,
    pub kind: u8,
    pub last: bool,
    pub res: Res,
    pub read: usize,
    pub written: usize,
    pub had_errors: bool,
    pub query: bool,
    pub state_before: u64,
    pub consumed_before: usize,
}

#[derive(Clone, Debug, Default)]
pub struct Faults {
    pub short_read: u64,
    pub cut_inside_sequence: u64,
    pub zero_read: u64,
    pub eof_separate: u64,
    pub eof_with_data: u64,
    pub backpressure: u64,
    pub min_capacity: u64,
    pub stall: u64,
    pub sink_switch: u64,
    pub dirty_buffer: u64,
    pub placement: u64,
    pub reuse_after_finish: u64,
    pub peek: u64,
    pub query_exact: u64,
    pub deliver_while_pending: u64,
}

impl Faults {
    pub fn total(&self) -> u64 {
        self.short_read + self.zero_read + self.eof_separate + self.backpressure + self.stall + self.sink_switch + self.dirty_buffer + self.placement + self.reuse_after_finish + self.peek + self.query_exact
    }
    pub fn add(&mut self, o: &Faults) {
        self.short_read += o.short_read;
        self.cut_inside_sequence += o.cut_inside_sequence;
        self.zero_read += o.zero_read;
        self.eof_separate += o.eof_separate;
        self.eof_with_data += o.eof_with_data;
        self.backpressure += o.backpressure;
        self.min_capacity += o.min_capacity;
        self.stall += o.stall;
        self.sink_switch += o.sink_switch;
        self.dirty_buffer += o.dirty_buffer;
        self.placement += o.placement;
        self.reuse_after_finish += o.reuse_after_finish;
        self.peek += o.peek;
        self.query_exact += o.query_exact;
        self.deliver_while_pending += o.deliver_while_pending;
    }
    pub fn to_json(&self) -> serde_json::Value {
        serde_json::json!({
            "short_read": self.short_read, "cut_inside_sequence": self.cut_inside_sequence,
            "zero_read": self.zero_read, "eof_separate": self.eof_separate, "eof_with_data": self.eof_with_data,
            "backpressure_outputfull": self.backpressure, "min_capacity_offer": self.min_capacity, "stall": self.stall,
            "sink_switch": self.sink_switch, "dirty_buffer": self.dirty_buffer, "placement": self.placement,
            "reuse_after_finish": self.reuse_after_finish, "peek": self.peek, "query_exact_offer": self.query_exact,
            "deliver_while_pending": self.deliver_while_pending
        })
    }
}

#[derive(Clone, Debug)]
pub struct PeekRec {
    pub consumed: usize,
    pub buf_len: usize,
    pub result: Option<usize>,
}

pub struct DecRun {
    pub calls: Vec<CallRec>,
    pub out8: Vec<u8>,
    pub out16: Vec<u16>,
    pub had_errors: bool,
    /// absolute (start, len) of every malformed sequence reported
    pub malformed: Vec<(i64, u8)>,
    pub final_enc: &'static Encoding,
    pub finished: bool,
    pub consumed: usize,
    pub viols: Vec<Viol>,
    pub faults: Faults,
    pub probes: Vec<(&'static str, u64)>,
    pub transcript: Digest,
    pub sig: Digest,
    pub nontrivial: bool,
    pub aborted: Option<String>,
    pub env_calls: usize,
    /// the environment has delivered the whole stream and raised EOF
    pub env_done: bool,
    pub ops: Vec<Op>,
    pub events: usize,
    pub panicked_in_contract: bool,
}

impl DecRun {
    /// Scalar values of the collected output.
    pub fn text(&self, form16: bool) -> Vec<char> {
        if form16 {
            char::decode_utf16(self.out16.iter().copied()).map(|r| r.unwrap_or('\u{FFFF}')).collect()
        } else {
            String::from_utf8_lossy(&self.out8).chars().collect()
        }
    }
    pub fn probe(&mut self, name: &'static str) {
        for p in self.probes.iter_mut() {
            if p.0 == name {
                p.1 += 1;
                return;
            }
        }
        self.probes.push((name, 1));
    }
}

pub fn min_cap(form16: bool) -> usize {
    if form16 { 2 } else { 4 }
}

/// Public-API proxy for "which state is the decoder in".
pub fn state_proxy(d: &Decoder) -> u64 {
    match guard(|| {
        let a = d.latin1_byte_compatible_up_to(b"").is_some() as u64;
        let b = d.max_utf8_buffer_length_without_replacement(0).unwrap_or(usize::MAX) as u64;
        let c = d.max_utf16_buffer_length(0).unwrap_or(usize::MAX) as u64;
        let e = crate::encs::index_of(d.encoding()) as u64;
        a | (b << 1) | (c << 12) | (e << 24)
    }) {
        Ok(v) => v,
        Err(_) => {
            defer_viol("C06", "panic-in-contract", format!("a query (latin1_byte_compatible_up_to / max_*_buffer_length(0)) on an unfinished decoder panicked: {}", take_panic()));
            u64::MAX
        }
    }
}

pub fn query_for(d: &Decoder, form16: bool, repl: bool, n: usize) -> Option<usize> {
    match guard(|| {
        if form16 {
            d.max_utf16_buffer_length(n)
        } else if repl {
            d.max_utf8_buffer_length(n)
        } else {
            d.max_utf8_buffer_length_without_replacement(n)
        }
    }) {
        Ok(v) => v,
        Err(_) => {
            let p = take_panic();
            defer_viol("C06", "panic-in-contract", format!("max_*_buffer_length({}) panicked: {}", n, p));
            defer_viol("C07", "query-panicked", format!("max_*_buffer_length({}) panicked: {}", n, p));
            None
        }
    }
}

pub type PeekFn<'a> = &'a mut dyn FnMut(&Decoder, &DecSpec, &[CallRec], usize /*consumed*/, &[u8] /*pending*/, u8) -> Vec<Viol>;

pub fn drive_dec(spec: &DecSpec, mode: DecMode, source: &mut dyn OpSource, mut peek_fn: Option<PeekFn>) -> DecRun {
    let nrep = match mode {
        DecMode::Plain => 1,
        DecMode::Replicas => 3,
        DecMode::Peek | DecMode::Manual => 2,
    };
    let mut decs: Vec<Decoder> = (0..nrep).map(|_| new_decoder(spec.enc, spec.bom)).collect();
    let initial_proxy = state_proxy(&new_decoder(spec.enc, Bom::Off));
    let min = min_cap(spec.form16);
    let mut run = DecRun {
        calls: Vec::new(),
        out8: Vec::new(),
        out16: Vec::new(),
        had_errors: false,
        malformed: Vec::new(),
        final_enc: spec.enc,
        finished: false,
        consumed: 0,
        viols: Vec::new(),
        faults: Faults::default(),
        probes: Vec::new(),
        transcript: Digest::new(),
        sig: Digest::new(),
        nontrivial: false,
        aborted: None,
        env_calls: 0,
        env_done: false,
        ops: Vec::new(),
        events: 0,
        panicked_in_contract: false,
    };
    let mut stale = Stale { out8: Vec::new(), out16: Vec::new() };
    let len = spec.stream.len();
    let mut visible = 0usize;
    let mut consumed = 0usize;
    let mut eof = false;
    let mut last_full = false;
    let mut last_kind: Option<u8> = None;
    let mut last_offer: Option<Offer> = None;
    let mut noninitial_call = false;
    let mut kinds_mask = 0u64;
    let max_events = 20_000usize;

    loop {
        run.env_done = eof && visible == len;
        let view = View { remaining: len - visible, visible, pending: visible - consumed, eof, finished: run.finished, min_cap: min, last_full };
        let op = match source.next(&view) {
            Some(op) => op,
            None => break,
        };
        run.events += 1;
        if run.events > max_events {
            break;
        }
        for (p, o, d) in take_deferred() {
            run.viols.push(viol(p, o, d));
        }
        match op {
            Op::Deliver(n) => {
                if eof || run.finished {
                    continue;
                }
                let n = n.min(len - visible);
                if visible > consumed && n > 0 {
                    run.faults.deliver_while_pending += 1;
                }
                visible += n;
            }
            Op::Eof => {
                if visible == len {
                    eof = true;
                }
            }
            Op::Peek(what) => {
                if run.finished {
                    continue;
                }
                run.faults.peek += 1;
                if let Some(f) = peek_fn.as_mut() {
                    let v = f(&decs[0], spec, &run.calls, consumed, &spec.stream[consumed..visible], what);
                    run.viols.extend(v);
                }
            }
            Op::Reuse(offer) => {
                if !run.finished {
                    continue;
                }
                run.faults.reuse_after_finish += 1;
                // one more call on the finished decoder, safe sinks only
                let mut o = offer.clone();
                if !spec.form16 && o.kind == K_SLICE {
                    o.kind = K_STR;
                }
                let cap = o.cap.max(min);
                let how = How::Builtin { repl: spec.repl };
                let c = guarded_call(&mut decs[0], how, spec.form16, b"ab", &o, cap, o.fill, true, &stale, false);
                // only the C05 oracles apply: the call itself is out of contract
                run.viols.extend(c.viols.into_iter().filter(|v| v.prop == "C05"));
                if c.panicked.is_some() {
                    run.probe("reuse_after_finish_panicked");
                }
            }
            Op::Call(offer) => {
                if run.finished {
                    continue;
                }
                let pending = &spec.stream[consumed..visible];
                let last = eof && visible == len;
                if crate::sink::peek_every_call() {
                    // C17: the queries are asked before every call (what = 255: short ladder)
                    if let Some(f) = peek_fn.as_mut() {
                        let v = f(&decs[0], spec, &run.calls, consumed, pending, 255);
                        run.viols.extend(v);
                    }
                }
                let proxy = state_proxy(&decs[0]);
                // this call's method and output form (the session's own unless the pump switches)
                let call_repl = match offer.method {
                    1 => true,
                    2 => false,
                    _ => spec.repl,
                };
                let call_form16 = match offer.form {
                    1 => false,
                    2 => true,
                    _ => spec.form16,
                };
                let min = min_cap(call_form16);
                if call_repl != spec.repl || call_form16 != spec.form16 {
                    run.probe("method_or_form_switched");
                }
                // capacity: from the offer, or from the matching query
                let mut cap = if offer.submin { offer.cap } else { offer.cap.max(min) };
                if offer.submin {
                    run.probe("sub_minimum_safe_sink");
                }
                let mut by_query = false;
                if offer.query {
                    if let Some(q) = query_for(&decs[0], call_form16, call_repl, pending.len()) {
                        if q <= (1 << 20) {
                            // never below the documented minimum: a smaller sink is
                            // outside the documented preconditions of decode_*
                            cap = q.max(min) + offer.slack as usize;
                            by_query = true;
                            run.faults.query_exact += 1;
                            if offer.slack != 0 {
                                run.probe("query_sized_sink_with_slack");
                            }
                        }
                    }
                }
                let in_contract = cap >= min;
                // fault accounting
                if pending.is_empty() && !last {
                    run.faults.zero_read += 1;
                    run.env_calls += 1;
                }
                if visible < len {
                    run.faults.short_read += 1;
                }
                if last {
                    if pending.is_empty() {
                        run.faults.eof_separate += 1;
                    } else {
                        run.faults.eof_with_data += 1;
                    }
                }
                if cap == min {
                    run.faults.min_capacity += 1;
                }
                if last_full && last_offer.as_ref() == Some(&offer) {
                    run.faults.stall += 1;
                }
                if let Some(k) = last_kind {
                    if k != offer.kind && !spec.form16 {
                        run.faults.sink_switch += 1;
                    }
                }
                if offer.fill != 0 {
                    run.faults.dirty_buffer += 1;
                }
                if offer.dst_off != 0 || offer.src_off != 0 {
                    run.faults.placement += 1;
                }
                last_kind = Some(offer.kind);
                last_offer = Some(offer.clone());
                kinds_mask |= 1 << offer.kind;
                if spec.bom != Bom::Off && (1..=2).contains(&consumed) && !pending.is_empty() && crate::props::bom_open(spec.enc, spec.bom, &spec.stream[..consumed]) && !crate::props::bom_open(spec.enc, spec.bom, &spec.stream[..consumed + 1]) && crate::props::bom_model(spec.enc, spec.bom, &spec.stream[..consumed + 1]).1 == 0 {
                    run.probe("withheld_bom_lookalike_replayed");
                    if cap == min {
                        run.probe("withheld_bom_lookalike_replayed_at_min_sink");
                    }
                }
                if !run.calls.is_empty() && proxy != initial_proxy {
                    noninitial_call = true;
                    if last_full {
                        run.probe("outputfull_with_state_pending");
                    }
                    if pending.is_empty() && !last {
                        run.probe("zero_read_with_state_pending");
                    }
                }

                // replica calls
                let mut outs: Vec<CallOut> = Vec::with_capacity(nrep);
                for (i, d) in decs.iter_mut().enumerate() {
                    let how = match (mode, i) {
                        (DecMode::Manual, 1) => How::Manual,
                        (DecMode::Manual, _) => How::Builtin { repl: true },
                        _ => How::Builtin { repl: call_repl },
                    };
                    let fill = match mode {
                        DecMode::Replicas => ((offer.fill as usize + i) % 6) as u8,
                        _ => offer.fill,
                    };
                    let mut o = offer.clone();
                    if (mode == DecMode::Manual && i == 1 && !call_form16) || (!call_form16 && o.kind == K_U16) {
                        o.kind = K_SLICE;
                    }
                    // the manual replica gets exactly the capacity replica 0 really had
                    let cap_i = if mode == DecMode::Manual && i == 1 { outs[0].cap_used } else { cap };
                    outs.push(guarded_call(d, how, call_form16, pending, &o, cap_i, fill, last, &stale, in_contract));
                }
                for o in outs.iter_mut() {
                    run.viols.append(&mut o.viols);
                }
                if let Some(p) = outs.iter().find_map(|o| o.panicked.clone()) {
                    // lock-step replicas must agree on panicking, too
                    if nrep > 1 && outs.iter().any(|o| o.panicked.is_none()) && p != "manual recovery impossible" {
                        let (prop, oracle) = match mode {
                            DecMode::Replicas => ("C18", "replica-divergence"),
                            DecMode::Peek => ("C19", "peek-disturbed-decoder"),
                            _ => ("C09", "builtin-vs-manual-call"),
                        };
                        let who: Vec<usize> = outs.iter().enumerate().filter(|(_, o)| o.panicked.is_some()).map(|(i, _)| i).collect();
                        run.viols.push(viol(prop, oracle, format!("call {}: replica(s) {:?} panicked ({}) while the other(s) returned normally", run.calls.len(), who, p)));
                    }
                    run.panicked_in_contract = in_contract;
                    run.aborted = Some(format!("panic: {}", p));
                    run.consumed = consumed;
                    run.ops = source.recorded().to_vec();
                    return run;
                }
                // lock-step comparison between replicas
                for i in 1..nrep {
                    let (a, b) = (&outs[0], &outs[i]);
                    let same = a.res == b.res && a.read == b.read && a.written == b.written && a.had_errors == b.had_errors && a.out8 == b.out8 && a.out16 == b.out16;
                    if !same {
                        let (prop, oracle) = match mode {
                            DecMode::Replicas => ("C18", "replica-divergence"),
                            DecMode::Peek => ("C19", "peek-disturbed-decoder"),
                            DecMode::Manual => ("C09", "builtin-vs-manual-call"),
                            DecMode::Plain => unreachable!(),
                        };
                        run.viols.push(viol(
                            prop,
                            oracle,
                            format!(
                                "call {} (src {} bytes, cap {}, last {}): replica 0 -> ({}, {}, {}, {}) {:02x?}{:04x?}; replica {} -> ({}, {}, {}, {}) {:02x?}{:04x?}",
                                run.calls.len(), pending.len(), cap, last, a.res.name(), a.read, a.written, a.had_errors, a.out8, a.out16,
                                i, b.res.name(), b.read, b.written, b.had_errors, b.out8, b.out16
                            ),
                        ));
                        run.aborted = Some("replicas diverged".into());
                        run.ops = source.recorded().to_vec();
                        return run;
                    }
                }
                let c = &outs[0];
                if c.read > pending.len() || c.written > c.cap_used {
                    run.aborted = Some("read/written contract broken".into());
                    run.ops = source.recorded().to_vec();
                    return run;
                }
                // C07: a sink of exactly the queried size must suffice
                if by_query && c.res == Res::OutputFull {
                    run.viols.push(viol(
                        "C07",
                        "outputfull-with-queried-size",
                        format!("query for {} units said {}, call returned OutputFull after read {} written {}", pending.len(), cap, c.read, c.written),
                    ));
                }
                // C08: progress
                let progressed = c.read > 0 || c.written > 0 || matches!(c.res, Res::Malformed(_, _));
                let ends = c.res == Res::InputEmpty && last;
                if in_contract && !progressed && !ends && !pending.is_empty() {
                    run.viols.push(viol(
                        "C08",
                        "call-without-progress",
                        format!("call {}: {} pending bytes, cap {}, last {} -> ({}, 0, 0)", run.calls.len(), pending.len(), cap, last, c.res.name()),
                    ));
                }
                if in_contract && !progressed && !ends && pending.is_empty() && last {
                    run.viols.push(viol("C08", "call-without-progress", format!("call {}: empty last call, cap {} -> ({}, 0, 0)", run.calls.len(), cap, c.res.name())));
                }
                // the pump's documented reaction
                consumed += c.read;
                run.out8.extend_from_slice(&c.out8);
                run.out16.extend_from_slice(&c.out16);
                stale.out8 = c.out8.clone();
                stale.out16 = c.out16.clone();
                run.had_errors |= c.had_errors;
                if let Res::Malformed(l, a) = c.res {
                    let start = consumed as i64 - a as i64 - l as i64;
                    run.malformed.push((start, l));
                    if !(1..=4).contains(&l) || a > 3 || l + a > 6 {
                        run.viols.push(viol("C02", "malformed-numbers-out-of-range", format!("Malformed({}, {})", l, a)));
                    }
                    if start < 0 {
                        run.viols.push(viol("C02", "malformed-before-stream-start", format!("Malformed({}, {}) after {} bytes consumed", l, a, consumed)));
                    }
                    if call_form16 {
                        run.out16.push(0xFFFD);
                    } else {
                        run.out8.extend_from_slice(&[0xEF, 0xBF, 0xBD]);
                    }
                    match (l, a) {
                        (1, 1) => run.probe("malformed_1_1"),
                        (1, 2) => run.probe("malformed_1_2"),
                        (3, 3) => run.probe("malformed_3_3"),
                        (2, 2) => run.probe("malformed_2_2"),
                        (4, 0) => run.probe("malformed_4_0"),
                        _ => {}
                    }
                }
                last_full = c.res == Res::OutputFull;
                if last_full {
                    run.faults.backpressure += 1;
                }
                // transcript and signature
                if log_calls() {
                    log_call(format!("src={} cap={} kind={} last={} -> {} read={} written={} had_errors={} out={:02x?}{:04x?}", crate::props::hex(pending), c.cap_used, offer.kind, last, c.res.name(), c.read, c.written, c.had_errors, c.out8, c.out16));
                }
                let t = &mut run.transcript;
                t.usize(pending.len());
                t.usize(cap);
                t.byte(last as u8);
                t.u64(c.res.code());
                t.usize(c.read);
                t.usize(c.written);
                t.byte(c.had_errors as u8);
                t.bytes(&c.out8);
                t.u16s(&c.out16);
                let s = &mut run.sig;
                s.usize(pending.len().min(5));
                s.usize(if cap == min { 0 } else if cap < min + 4 { 1 } else if cap < 24 { 2 } else { 3 });
                s.byte(last as u8);
                s.u64(c.res.code());
                s.byte((c.read > 0) as u8);
                s.byte((c.written > 0) as u8);
                s.u64(proxy);
                run.calls.push(CallRec {
                    src_len: pending.len(),
                    cap: c.cap_used,
                    kind: offer.kind,
                    last,
                    res: c.res,
                    read: c.read,
                    written: c.written,
                    had_errors: c.had_errors,
                    query: by_query,
                    state_before: proxy,
                    consumed_before: consumed - c.read,
                });
                if visible < len && consumed == visible && state_proxy(&decs[0]) != initial_proxy {
                    run.faults.cut_inside_sequence += 1;
                }
                if ends {
                    run.finished = true;
                    run.final_enc = decs[0].encoding();
                }
            }
        }
    }
    for (p, o, d) in take_deferred() {
        run.viols.push(viol(p, o, d));
    }
    run.consumed = consumed;
    run.ops = source.recorded().to_vec();
    if !run.finished {
        run.final_enc = decs[0].encoding();
    }
    run.sig.usize(crate::encs::index_of(spec.enc));
    run.sig.byte(spec.bom as u8);
    run.sig.u64(kinds_mask);
    run.sig.byte(spec.repl as u8);
    run.nontrivial = run.calls.len() >= 2 && run.faults.total() > 0 && noninitial_call;
    run
}

/// The reference execution: the same real code under the null schedule —
/// whole stream in one segment, ample sink, `last = true`; after a
/// `Malformed` the rest is re-pushed as documented.
pub struct RefRun {
    pub text: Vec<char>,
    pub had_errors: bool,
    pub malformed: Vec<(i64, u8)>,
    pub final_enc: &'static Encoding,
    pub ok: bool,
    pub note: String,
}

pub fn reference_dec(enc: &'static Encoding, bom: Bom, repl: bool, form16: bool, stream: &[u8]) -> RefRun {
    // guarded copy: whatever an over-reading converter finds behind the stream is
    // the same in every process
    let guarded = Guard8::from(stream, 0);
    let stream = guarded.slice();
    let mut d = new_decoder(enc, bom);
    let mut r = RefRun { text: Vec::new(), had_errors: false, malformed: Vec::new(), final_enc: enc, ok: true, note: String::new() };
    let cap = 4 * stream.len() + 64;
    let mut consumed = 0usize;
    let mut out8: Vec<u8> = Vec::new();
    let mut out16: Vec<u16> = Vec::new();
    let mut guard = 0usize;
    let res = crate::sink::guard((|| loop {
        guard += 1;
        if guard > stream.len() + 8 {
            return Err("reference run did not finish".to_string());
        }
        if form16 {
            let mut dst = vec![0u16; cap];
            if repl {
                let (res, rd, wr, he) = d.decode_to_utf16(&stream[consumed..], &mut dst, true);
                consumed += rd;
                out16.extend_from_slice(&dst[..wr]);
                r.had_errors |= he;
                if res == CoderResult::InputEmpty {
                    return Ok(());
                }
            } else {
                let (res, rd, wr) = d.decode_to_utf16_without_replacement(&stream[consumed..], &mut dst, true);
                consumed += rd;
                out16.extend_from_slice(&dst[..wr]);
                match res {
                    DecoderResult::InputEmpty => return Ok(()),
                    DecoderResult::OutputFull => {}
                    DecoderResult::Malformed(l, a) => {
                        r.malformed.push((consumed as i64 - a as i64 - l as i64, l));
                        out16.push(0xFFFD);
                    }
                }
            }
        } else {
            let mut dst = vec![0u8; cap];
            if repl {
                let (res, rd, wr, he) = d.decode_to_utf8(&stream[consumed..], &mut dst, true);
                consumed += rd;
                out8.extend_from_slice(&dst[..wr]);
                r.had_errors |= he;
                if res == CoderResult::InputEmpty {
                    return Ok(());
                }
            } else {
                let (res, rd, wr) = d.decode_to_utf8_without_replacement(&stream[consumed..], &mut dst, true);
                consumed += rd;
                out8.extend_from_slice(&dst[..wr]);
                match res {
                    DecoderResult::InputEmpty => return Ok(()),
                    DecoderResult::OutputFull => {}
                    DecoderResult::Malformed(l, a) => {
                        r.malformed.push((consumed as i64 - a as i64 - l as i64, l));
                        out8.extend_from_slice(&[0xEF, 0xBF, 0xBD]);
                    }
                }
            }
        }
    }));
    match res {
        Ok(Ok(())) => {}
        Ok(Err(e)) => {
            r.ok = false;
            r.note = e;
        }
        Err(_) => {
            r.ok = false;
            r.note = format!("reference run panicked: {}", take_panic());
        }
    }
    r.final_enc = d.encoding();
    r.text = if form16 {
        char::decode_utf16(out16.iter().copied()).map(|x| x.unwrap_or('\u{FFFF}')).collect()
    } else {
        String::from_utf8_lossy(&out8).chars().collect()
    };
    r
}
