//! MEMSINK scenario: the caller pump over the four stateless `mem::*_partial`
//! conversions (whole remaining source, bounded sink). Only the bounds,
//! validity and garbage-independence clauses of C05 / C06 / C18 are decided
//! here; exactness of the conversions (C15) is not.

use crate::dec::{viol, Faults, Viol};
use crate::ops::*;
use crate::rng::Digest;
use crate::sink::*;

#[derive(Clone, Copy, Debug, PartialEq, Eq)]
pub enum MemFn {
    Utf16ToUtf8Partial,
    Utf16ToStrPartial,
    Latin1ToUtf8Partial,
    Latin1ToStrPartial,
    /// the non-partial wrappers: whole source, destination of the documented
    /// sufficient size (the offered capacity is raised to it)
    Utf16ToStr,
    Latin1ToStr,
}

impl MemFn {
    pub fn name(self) -> &'static str {
        match self {
            MemFn::Utf16ToUtf8Partial => "convert_utf16_to_utf8_partial",
            MemFn::Utf16ToStrPartial => "convert_utf16_to_str_partial",
            MemFn::Latin1ToUtf8Partial => "convert_latin1_to_utf8_partial",
            MemFn::Latin1ToStrPartial => "convert_latin1_to_str_partial",
            MemFn::Utf16ToStr => "convert_utf16_to_str",
            MemFn::Latin1ToStr => "convert_latin1_to_str",
        }
    }
    pub fn from_name(s: &str) -> Option<MemFn> {
        [MemFn::Utf16ToUtf8Partial, MemFn::Utf16ToStrPartial, MemFn::Latin1ToUtf8Partial, MemFn::Latin1ToStrPartial, MemFn::Utf16ToStr, MemFn::Latin1ToStr].into_iter().find(|f| f.name() == s)
    }
    pub fn src16(self) -> bool {
        matches!(self, MemFn::Utf16ToUtf8Partial | MemFn::Utf16ToStrPartial | MemFn::Utf16ToStr)
    }
    pub fn to_str(self) -> bool {
        matches!(self, MemFn::Utf16ToStrPartial | MemFn::Latin1ToStrPartial | MemFn::Utf16ToStr | MemFn::Latin1ToStr)
    }
    /// documented sufficient destination length for the non-partial wrappers
    pub fn whole(self, src_len: usize) -> Option<usize> {
        match self {
            MemFn::Utf16ToStr => Some(src_len * 3),
            MemFn::Latin1ToStr => Some(src_len * 2),
            _ => None,
        }
    }
}

#[derive(Clone, Debug)]
pub struct MemSpec {
    pub func: MemFn,
    /// source units (u16 for the UTF-16 functions, bytes stored as u16 for Latin1)
    pub src: Vec<u16>,
}

pub struct MemRun {
    pub calls: usize,
    pub out: Vec<u8>,
    pub finished: bool,
    pub viols: Vec<Viol>,
    pub faults: Faults,
    pub transcript: Digest,
    pub sig: Digest,
    pub nontrivial: bool,
    pub aborted: Option<String>,
    pub ops: Vec<Op>,
    pub events: usize,
}

struct MCall {
    read: usize,
    written: usize,
    out: Vec<u8>,
    panicked: Option<String>,
    viols: Vec<Viol>,
}

fn one_call(func: MemFn, src: &[u16], offer: &Offer, cap: usize, fill: u8, stale: &[u8]) -> MCall {
    let mut viols = Vec::new();
    let mut g = Guard8::new(cap, offer.dst_off as usize);
    if func.to_str() {
        fill_valid_utf8(g.slice_mut(), fill, offer.phase, stale);
    } else {
        fill_bytes(g.slice_mut(), fill, stale);
    }
    let g16 = Guard16::from(src, offer.src_off as usize);
    let bytes: Vec<u8> = src.iter().map(|&u| u as u8).collect();
    let g8 = Guard8::from(&bytes, offer.src_off as usize);
    let r = crate::sink::guard((|| match func {
        MemFn::Utf16ToUtf8Partial => encoding_rs::mem::convert_utf16_to_utf8_partial(g16.slice(), g.slice_mut()),
        MemFn::Utf16ToStrPartial => encoding_rs::mem::convert_utf16_to_str_partial(g16.slice(), std::str::from_utf8_mut(g.slice_mut()).expect("harness filler")),
        MemFn::Latin1ToUtf8Partial => encoding_rs::mem::convert_latin1_to_utf8_partial(g8.slice(), g.slice_mut()),
        MemFn::Latin1ToStrPartial => encoding_rs::mem::convert_latin1_to_str_partial(g8.slice(), std::str::from_utf8_mut(g.slice_mut()).expect("harness filler")),
        MemFn::Utf16ToStr => (src.len(), encoding_rs::mem::convert_utf16_to_str(g16.slice(), std::str::from_utf8_mut(g.slice_mut()).expect("harness filler"))),
        MemFn::Latin1ToStr => (src.len(), encoding_rs::mem::convert_latin1_to_str(g8.slice(), std::str::from_utf8_mut(g.slice_mut()).expect("harness filler"))),
    }));
    let mut c = MCall { read: 0, written: 0, out: Vec::new(), panicked: None, viols: Vec::new() };
    let whole_valid = std::str::from_utf8(g.slice()).is_ok();
    match r {
        Err(_) => {
            let p = take_panic();
            viols.push(viol("C06", "panic-in-contract", format!("{} panicked with src.len()={} dst.len()={}: {}", func.name(), src.len(), cap, p)));
            if func.to_str() && !whole_valid {
                viols.push(viol("C05", "panic-left-invalid-str", format!("{}: &mut str invalid after unwinding", func.name())));
            }
            c.panicked = Some(p);
        }
        Ok((rd, wr)) => {
            c.read = rd;
            c.written = wr;
            if rd > src.len() {
                viols.push(viol("C06", "read-exceeds-source", format!("{}: read {} > {}", func.name(), rd, src.len())));
            }
            if wr > cap {
                viols.push(viol("C06", "written-exceeds-destination", format!("{}: written {} > {}", func.name(), wr, cap)));
            } else {
                c.out = g.slice()[..wr].to_vec();
                if std::str::from_utf8(&c.out).is_err() {
                    viols.push(viol("C05", "written-prefix-invalid-utf8", format!("{}: {:02x?}", func.name(), c.out)));
                }
            }
            if func.to_str() && !whole_valid {
                viols.push(viol("C05", "str-invalid", format!("{}: &mut str not valid UTF-8 after call (src {} units, dst {} bytes, written {}): {:02x?}", func.name(), src.len(), cap, wr, g.slice())));
            }
        }
    }
    if !g.intact() {
        viols.push(viol("C06", "canary", format!("{}: write outside the {}-byte destination", func.name(), cap)));
    }
    c.viols = viols;
    c
}

pub fn drive_mem(spec: &MemSpec, replicas: bool, source: &mut dyn OpSource) -> MemRun {
    let nrep = if replicas { 3 } else { 1 };
    let mut run = MemRun {
        calls: 0,
        out: Vec::new(),
        finished: false,
        viols: Vec::new(),
        faults: Faults::default(),
        transcript: Digest::new(),
        sig: Digest::new(),
        nontrivial: false,
        aborted: None,
        ops: Vec::new(),
        events: 0,
    };
    let len = spec.src.len();
    let mut visible = 0usize;
    let mut consumed = 0usize;
    let mut eof = false;
    let mut last_full = false;
    let mut stale: Vec<u8> = Vec::new();
    let min = 4usize;
    loop {
        let view = View { remaining: len - visible, visible, pending: visible - consumed, eof, finished: run.finished, min_cap: min, last_full };
        let op = match source.next(&view) {
            Some(op) => op,
            None => break,
        };
        run.events += 1;
        if run.events > 20_000 {
            break;
        }
        match op {
            Op::Deliver(n) => {
                if !eof && !run.finished {
                    visible += n.min(len - visible);
                }
            }
            Op::Eof => {
                if visible == len {
                    eof = true;
                    if consumed == len {
                        run.finished = true;
                    }
                }
            }
            Op::Peek(_) | Op::Reuse(_) => {}
            Op::Call(offer) => {
                if run.finished {
                    continue;
                }
                let pending = &spec.src[consumed..visible];
                let cap = match spec.func.whole(pending.len()) {
                    Some(need) => need.max(offer.cap.min(need + 24)),
                    None => {
                        if offer.submin && spec.func.to_str() {
                            offer.cap
                        } else {
                            offer.cap.max(min)
                        }
                    }
                };
                if cap == min {
                    run.faults.min_capacity += 1;
                }
                if offer.fill != 0 {
                    run.faults.dirty_buffer += 1;
                }
                if offer.dst_off != 0 || offer.src_off != 0 {
                    run.faults.placement += 1;
                }
                if visible < len {
                    run.faults.short_read += 1;
                }
                if pending.is_empty() {
                    run.faults.zero_read += 1;
                }
                let mut outs = Vec::new();
                for i in 0..nrep {
                    let fill = if replicas { ((offer.fill as usize + i) % 6) as u8 } else { offer.fill };
                    outs.push(one_call(spec.func, pending, &offer, cap, fill, &stale));
                }
                for o in outs.iter_mut() {
                    run.viols.append(&mut o.viols);
                }
                if let Some(p) = outs.iter().find_map(|o| o.panicked.clone()) {
                    run.aborted = Some(format!("panic: {}", p));
                    break;
                }
                for i in 1..nrep {
                    let (a, b) = (&outs[0], &outs[i]);
                    if a.read != b.read || a.written != b.written || a.out != b.out {
                        run.viols.push(viol(
                            "C18",
                            "replica-divergence",
                            format!("{} call {}: replica 0 -> ({}, {}) {:02x?}; replica {} -> ({}, {}) {:02x?}", spec.func.name(), run.calls, a.read, a.written, a.out, i, b.read, b.written, b.out),
                        ));
                        run.aborted = Some("replicas diverged".into());
                    }
                }
                if run.aborted.is_some() {
                    break;
                }
                let c = &outs[0];
                if c.read > pending.len() || c.written > cap {
                    run.aborted = Some("read/written contract broken".into());
                    break;
                }
                consumed += c.read;
                run.out.extend_from_slice(&c.out);
                stale = c.out.clone();
                last_full = c.read < pending.len();
                if last_full {
                    run.faults.backpressure += 1;
                }
                run.calls += 1;
                if log_calls() {
                    log_call(format!("{} src={} units cap={} -> read={} written={} out={:02x?}", spec.func.name(), pending.len(), cap, c.read, c.written, c.out));
                }
                let t = &mut run.transcript;
                t.usize(pending.len());
                t.usize(cap);
                t.usize(c.read);
                t.usize(c.written);
                t.bytes(&c.out);
                let s = &mut run.sig;
                s.usize(pending.len().min(40));
                s.usize(cap.min(40));
                s.usize(c.read.min(40));
                s.usize(c.written.min(40));
                if eof && consumed == len {
                    run.finished = true;
                }
            }
        }
    }
    run.ops = source.recorded().to_vec();
    run.sig.byte(spec.func as u8);
    run.nontrivial = run.calls >= 2 && run.faults.backpressure > 0;
    run
}
